/-
  Lmd.Lemmas.UnionLemmas — the whole query as the union of its backends: the answer of a request
  against the answers of the same request restricted to one backend at a time (data and Stats), and
  the closed form of a Stats answer over the rows the corresponding data request returns.
-/
import Lmd.Props.C04
import Lmd.Props.C05
import Lmd.Lemmas.DistStatsLemmas

namespace Lmd.Union
open Lmd Lmd.Sort Lmd.Dist Lmd.C05

/-! ## 1. requests that differ in the `Backends:` header only -/

/-- the same request with another `Backends:` header -/
def withBackends (req : Request) (ids : List String) : Request := { req with backends := ids }

/-- the same request restricted to one backend (`Backends: id`) -/
def only (req : Request) (id : String) : Request := withBackends req [id]

theorem gatherRows_withBackends (m : EvalMode) (cx : Ctx) (t : Table) (req : Request) (ids : List String) :
    gatherRows m cx t (withBackends req ids) = gatherRows m cx t req := rfl

theorem ordinary_perBackend {t : Table} (h : C04.Ordinary t) : PerBackend t := h

/-- the available selected backends of a per-backend table -/
theorem avail_eq (ds : Dataset) (t : Table) (req : Request) (ht : C04.Ordinary t) :
    availBackends ds t req =
      ds.backends.filter (fun b => C04.selected req b && backendAvailable b t) := by
  rw [availBackends, C04.peers_eq_filter ds t req ht, List.filter_filter]
  congr 1
  funext b
  exact Bool.and_comm _ _

theorem mem_avail (ds : Dataset) (t : Table) (req : Request) (ht : C04.Ordinary t) (b : Backend) :
    b ∈ availBackends ds t req ↔
      b ∈ ds.backends ∧ C04.selected req b = true ∧ backendAvailable b t = true := by
  rw [avail_eq ds t req ht]
  simp [List.mem_filter]

theorem avail_subset (ds : Dataset) (t : Table) (req : Request) (b : Backend)
    (h : b ∈ availBackends ds t req) :
    b ∈ (selectBackends ds t req).peers ∧ b ∈ ds.backends ∧ backendAvailable b t = true := by
  rw [availBackends, List.mem_filter] at h
  exact ⟨h.1, (C04.peers_sublist ds t req).subset h.1, h.2⟩

/-- with distinct ids, an id names exactly one configured backend -/
theorem filter_id_eq : ∀ (l : List Backend) (b : Backend), (l.map (·.id)).Nodup → b ∈ l →
    l.filter (fun x => x.id == b.id) = [b]
  | [], b, _, h => by simp at h
  | x :: xs, b, hn, h => by
    simp only [List.map_cons, List.nodup_cons] at hn
    rcases List.mem_cons.mp h with rfl | h
    · have : xs.filter (fun x => x.id == b.id) = [] := by
        rw [List.filter_eq_nil_iff]
        intro y hy
        simp only [beq_iff_eq]
        intro e
        exact hn.1 (e ▸ List.mem_map_of_mem hy)
      simp [this]
    · have hne : ¬ x.id = b.id := fun e => hn.1 (e ▸ List.mem_map_of_mem h)
      simp [hne, filter_id_eq xs b hn.2 h]

theorem eq_of_id_eq {l : List Backend} (hn : (l.map (·.id)).Nodup) {a b : Backend} (ha : a ∈ l) (hb : b ∈ l)
    (h : a.id = b.id) : a = b :=
  Lemmas.eq_of_nodup_map (·.id) hn ha hb h

theorem selected_only (req : Request) (id : String) (x : Backend) :
    C04.selected (only req id) x = (x.id == id) := by
  simp only [C04.selected, only, withBackends, List.isEmpty_cons, Bool.false_or, List.contains_cons,
    List.contains_nil, Bool.or_false]

/-- `Backends: b` selects exactly `b`, and reads it iff it is available -/
theorem avail_only (ds : Dataset) (t : Table) (req : Request) (ht : C04.Ordinary t)
    (hid : (ds.backends.map (·.id)).Nodup) (b : Backend) (hb : b ∈ ds.backends) :
    availBackends ds t (only req b.id) = if backendAvailable b t then [b] else [] := by
  rw [availBackends, C04.peers_eq_filter ds t _ ht]
  have : ds.backends.filter (fun x => C04.selected (only req b.id) x) = [b] := by
    rw [← filter_id_eq ds.backends b hid hb]
    apply List.filter_congr
    intro x _
    exact selected_only req b.id x
  rw [this]
  cases h : backendAvailable b t <;> simp [h]

/-! ## 2. the rows of an answer -/

/-- the sort step of `dataQuery` -/
def sortHits (req : Request) (l : List Hit) : List Hit :=
  if req.sort.isEmpty then l else l.mergeSort (Hit.le (dirsOf req))

theorem sortHits_perm (req : Request) (l : List Hit) : (sortHits req l).Perm l := by
  unfold sortHits
  split
  · exact List.Perm.refl _
  · exact List.mergeSort_perm _ _

theorem sortHits_nosort (req : Request) (hs : req.sort = []) (l : List Hit) : sortHits req l = l := by
  simp [sortHits, hs]

theorem collected_eq_flatMap (m : EvalMode) (s : Schema) (ds : Dataset) (t : Table) (req : Request) :
    collected m s ds t req =
      (availBackends ds t req).flatMap fun b => (gatherRows m { schema := s, ds := ds, b := b } t req).hits := by
  simp [collected, peerResults, List.flatMap_map]

/-- without Limit and Offset the rows of the answer are the sorted collected rows -/
theorem hits_eq_sortHits (m : EvalMode) (s : Schema) (ds : Dataset) (t : Table) (req : Request)
    (hl : req.limit = none) (ho : req.offset = 0) :
    (dataQuery m s ds t req).hits = sortHits req (collected m s ds t req) := by
  rw [dataQuery_eq, if_neg (by omega)]
  simp only [window, hl, ho, List.drop_zero]
  rfl

/-- every returned row was collected from some backend -/
theorem mem_hits_collected (m : EvalMode) (s : Schema) (ds : Dataset) (t : Table) (req : Request) (h : Hit)
    (hh : h ∈ (dataQuery m s ds t req).hits) : h ∈ collected m s ds t req := by
  rw [dataQuery_eq] at hh
  split at hh
  · simp at hh
  · have h1 := (window_sublist_pool req _).subset hh
    unfold rawPool at h1
    split at h1
    · exact h1
    · exact (List.mergeSort_perm _ _).subset h1

theorem mem_collected (m : EvalMode) (s : Schema) (ds : Dataset) (t : Table) (req : Request) (h : Hit) :
    h ∈ collected m s ds t req ↔
      ∃ b ∈ availBackends ds t req, h ∈ (gatherRows m { schema := s, ds := ds, b := b } t req).hits := by
  rw [collected_eq_flatMap]
  simp [List.mem_flatMap]

/-- a collected row carries its backend, which is selected, configured and available -/
theorem collected_source (m : EvalMode) (s : Schema) (ds : Dataset) (t : Table) (req : Request) (h : Hit)
    (hh : h ∈ collected m s ds t req) :
    h.b ∈ availBackends ds t req ∧ h ∈ (gatherRows m { schema := s, ds := ds, b := h.b } t req).hits := by
  obtain ⟨b, hb, hin⟩ := (mem_collected m s ds t req h).mp hh
  have := C04.hit_source m _ t req h hin
  simp only at this
  subst this
  exact ⟨hb, hin⟩

/-! ### small list facts -/

theorem perm_flatMap_left {α β : Type} (l : List α) (f g : α → List β) (h : ∀ a ∈ l, (f a).Perm (g a)) :
    (l.flatMap f).Perm (l.flatMap g) := by
  induction l with
  | nil => exact List.Perm.refl _
  | cons a l ih =>
    simp only [List.flatMap_cons]
    exact (h a (by simp)).append (ih (fun b hb => h b (List.mem_cons_of_mem _ hb)))

theorem flatMap_ite {α β : Type} (p : α → Bool) (g : α → List β) (l : List α) :
    l.flatMap (fun a => if p a then g a else []) = (l.filter p).flatMap g := by
  induction l with
  | nil => rfl
  | cons a l ih =>
    simp only [List.flatMap_cons, List.filter_cons, ih]
    cases p a <;> simp

theorem filter_all_or_none {α : Type} (q : α → Bool) (l : List α) (c : Bool) (h : ∀ a ∈ l, q a = c) :
    l.filter q = if c then l else [] := by
  cases c
  · simp only [Bool.false_eq_true, if_false, List.filter_eq_nil_iff]
    intro a ha
    simp [h a ha]
  · simp only [if_true, List.filter_eq_self]
    exact h

theorem sublist_flatMap {α β : Type} (g : α → List β) {l₁ l₂ : List α} (h : l₁.Sublist l₂) :
    (l₁.flatMap g).Sublist (l₂.flatMap g) := by
  induction h with
  | slnil => exact List.Sublist.refl _
  | cons a _ ih =>
    simp only [List.flatMap_cons]
    exact ih.trans (List.sublist_append_right _ _)
  | cons_cons a _ ih =>
    simp only [List.flatMap_cons]
    exact List.Sublist.append (List.Sublist.refl _) ih

/-! ## 3. the answer restricted to one backend -/

/-- without Limit and Offset: the rows `Backends: b` returns are the sorted rows of `b` -/
theorem single_hits (m : EvalMode) (s : Schema) (ds : Dataset) (t : Table) (req : Request)
    (ht : C04.Ordinary t) (hid : (ds.backends.map (·.id)).Nodup) (hl : req.limit = none) (ho : req.offset = 0)
    (b : Backend) (hb : b ∈ ds.backends) :
    (dataQuery m s ds t (only req b.id)).hits =
      if backendAvailable b t then
        sortHits req (gatherRows m { schema := s, ds := ds, b := b } t req).hits
      else [] := by
  rw [hits_eq_sortHits m s ds t (only req b.id) hl ho, collected_eq_flatMap, avail_only ds t req ht hid b hb]
  cases backendAvailable b t
  · simp [sortHits]
  · simp only [if_true, List.flatMap_cons, List.flatMap_nil, List.append_nil]
    rfl

/-- the total `Backends: b` reports is the total of `b` (for every request) -/
theorem single_total (m : EvalMode) (s : Schema) (ds : Dataset) (t : Table) (req : Request)
    (ht : C04.Ordinary t) (hid : (ds.backends.map (·.id)).Nodup) (b : Backend) (hb : b ∈ ds.backends) :
    (dataQuery m s ds t (only req b.id)).total =
      if backendAvailable b t then (gatherRows m { schema := s, ds := ds, b := b } t req).total else 0 := by
  rw [dataQuery_total, totalOf_eq_sum, avail_only ds t req ht hid b hb]
  cases backendAvailable b t
  · simp
  · simp only [if_true, List.map_cons, List.map_nil, List.sum_cons, List.sum_nil, Nat.add_zero]
    rfl

/-! ## 4. the answer does not depend on backends it does not read -/

/-- the selection looks at the ids of the configured backends only -/
theorem selected_congr_id (req : Request) (a b : Backend) (h : a.id = b.id) :
    C04.selected req a = C04.selected req b := by
  simp [C04.selected, h]


/-- a change of the store: every configured backend `b` is replaced by `f b` -/
def mapStore (ds : Dataset) (f : Backend → Backend) : Dataset := { ds with backends := ds.backends.map f }

/-- the change `f` leaves alone what the request reads: ids, availability and error texts stay, and the
    backends that are selected *and* available are not changed at all; everything else about the other
    backends (their tables, flags, names, states) may change freely -/
structure Untouched (ds : Dataset) (t : Table) (req : Request) (f : Backend → Backend) : Prop where
  id : ∀ b ∈ ds.backends, (f b).id = b.id
  avail : ∀ b ∈ ds.backends, backendAvailable (f b) t = backendAvailable b t
  err : ∀ b ∈ ds.backends, (f b).err = b.err
  fix : ∀ b ∈ ds.backends, C04.selected req b = true → backendAvailable b t = true → f b = b

theorem selFailed_eq (ds : Dataset) (t : Table) (req : Request) :
    (selectBackends ds t req).failed =
      ((req.backends.filter (fun id => !ds.backends.any (·.id == id))).eraseDups).map C04.unknownEntry := rfl

section Store
variable {ds : Dataset} {t : Table} {req : Request} {f : Backend → Backend}

theorem peers_mapStore (ht : C04.Ordinary t) (hu : Untouched ds t req f) :
    (selectBackends (mapStore ds f) t req).peers = (selectBackends ds t req).peers.map f := by
  rw [C04.peers_eq_filter _ t req ht, C04.peers_eq_filter ds t req ht]
  simp only [mapStore, List.filter_map]
  congr 1
  apply List.filter_congr
  intro b hb
  exact selected_congr_id req _ _ (hu.id b hb)

theorem selFailed_mapStore (hu : Untouched ds t req f) :
    (selectBackends (mapStore ds f) t req).failed = (selectBackends ds t req).failed := by
  rw [selFailed_eq, selFailed_eq]
  have : ∀ id, (mapStore ds f).backends.any (·.id == id) = ds.backends.any (·.id == id) := by
    intro id
    simp only [mapStore, List.any_map]
    apply any_congr_mem
    intro b hb
    simp [hu.id b hb]
  simp only [this]

theorem peers_mem_backends (b : Backend) (hb : b ∈ (selectBackends ds t req).peers) : b ∈ ds.backends :=
  (C04.peers_sublist ds t req).subset hb

theorem avail_mapStore (ht : C04.Ordinary t) (hu : Untouched ds t req f) :
    availBackends (mapStore ds f) t req = availBackends ds t req := by
  rw [availBackends, peers_mapStore ht hu, List.filter_map, availBackends]
  have h1 : (selectBackends ds t req).peers.filter ((fun b => backendAvailable b t) ∘ f) =
      (selectBackends ds t req).peers.filter (fun b => backendAvailable b t) := by
    apply List.filter_congr
    intro b hb
    exact hu.avail b (peers_mem_backends b hb)
  rw [h1]
  conv => rhs; rw [← List.map_id ((selectBackends ds t req).peers.filter (fun b => backendAvailable b t))]
  apply List.map_congr_left
  intro b hb
  rw [List.mem_filter] at hb
  have hb' := peers_mem_backends b hb.1
  have hsel : C04.selected req b = true := by
    have := hb.1
    rw [C04.peers_eq_filter ds t req ht, List.mem_filter] at this
    exact this.2
  exact hu.fix b hb' hsel hb.2

theorem failedOf_mapStore (ht : C04.Ordinary t) (hu : Untouched ds t req f) :
    failedOf (mapStore ds f) t req = failedOf ds t req := by
  rw [failedOf, failedOf, selFailed_mapStore hu, peers_mapStore ht hu, List.filter_map, List.map_map]
  congr 1
  have h1 : (selectBackends ds t req).peers.filter ((fun b => !backendAvailable b t) ∘ f) =
      (selectBackends ds t req).peers.filter (fun b => !backendAvailable b t) := by
    apply List.filter_congr
    intro b hb
    simp [hu.avail b (peers_mem_backends b hb)]
  rw [h1]
  apply List.map_congr_left
  intro b hb
  rw [List.mem_filter] at hb
  have hb' := peers_mem_backends b hb.1
  simp [hu.id b hb', hu.err b hb']

theorem sameView_mapStore (s : Schema) (b : Backend) :
    Lemmas.SameView { schema := s, ds := mapStore ds f, b := b } { schema := s, ds := ds, b := b } :=
  ⟨rfl, rfl, rfl, rfl⟩

theorem peerResults_mapStore (m : EvalMode) (s : Schema) (ht : C04.Ordinary t) (hu : Untouched ds t req f) :
    peerResults m s (mapStore ds f) t req = peerResults m s ds t req := by
  rw [peerResults, peerResults, avail_mapStore ht hu]
  apply List.map_congr_left
  intro b _
  exact Lemmas.gatherRows_congr (sameView_mapStore s b) m t req

theorem dataQuery_mapStore (m : EvalMode) (s : Schema) (ht : C04.Ordinary t) (hu : Untouched ds t req f) :
    dataQuery m s (mapStore ds f) t req = dataQuery m s ds t req := by
  rw [dataQuery_eq, dataQuery_eq]
  unfold rawPool collected totalOf
  rw [peerResults_mapStore m s ht hu, failedOf_mapStore ht hu]

end Store

/-- the Stats loop of one backend does not look at the other backends either -/
theorem gatherStats_congr {cx cx' : Ctx} (h : Lemmas.SameView cx cx') (m : StatsMode) (t : Table)
    (req : Request) (reqCols : List Column) :
    gatherStats m cx t req reqCols = gatherStats m cx' t req reqCols := by
  have h1 : checkAuth cx t req.authUser = checkAuth cx' t req.authUser :=
    funext (Lemmas.checkAuth_congr h t _)
  have h2 : mkView cx t = mkView cx' t := funext (Lemmas.mkView_congr h t)
  simp only [gatherStats, Lemmas.tableRows_congr h, Lemmas.preFiltered_congr h, h1, h2]

theorem gsOf_congr (m : StatsMode) (s : Schema) (ds ds' : Dataset) (t : Table) (req : Request)
    (h1 : ds'.serviceAuthLoose = ds.serviceAuthLoose) (h2 : ds'.groupAuthLoose = ds.groupAuthLoose) :
    gsOf m s ds' t req = gsOf m s ds t req := by
  funext b
  exact gatherStats_congr (cx := { schema := s, ds := ds', b := b }) (cx' := { schema := s, ds := ds, b := b })
    ⟨rfl, rfl, h1, h2⟩ m t req _

theorem statsQuery_mapStore (m : StatsMode) (s : Schema) {ds : Dataset} {t : Table} {req : Request}
    {f : Backend → Backend} (ht : C04.Ordinary t) (hu : Untouched ds t req f) :
    statsQuery m s (mapStore ds f) t req = statsQuery m s ds t req := by
  rw [statsQuery_eq, statsQuery_eq, avail_mapStore ht hu, failedOf_mapStore ht hu]
  unfold crashOf mergedOf mapsOf
  rw [gsOf_congr m s ds (mapStore ds f) t req rfl rfl]

/-! ## 5. a smaller `Backends:` header -/

/-- the rows of a request whose header selects fewer backends: exactly the rows of the selected ones -/
theorem hits_of_smaller (m : EvalMode) (s : Schema) (ds : Dataset) (t : Table) (req : Request)
    (ids : List String) (ht : C04.Ordinary t)
    (hs : req.sort = []) (hl : req.limit = none) (ho : req.offset = 0)
    (hsub : ∀ b ∈ ds.backends, C04.selected (withBackends req ids) b = true → C04.selected req b = true) :
    (dataQuery m s ds t (withBackends req ids)).hits =
      (dataQuery m s ds t req).hits.filter (fun h => C04.selected (withBackends req ids) h.b) := by
  rw [C04.rows_partition_filter m s ds t req ht hs hl ho,
    C04.rows_partition_filter m s ds t (withBackends req ids) ht hs hl ho, List.filter_flatMap]
  have h1 : ∀ b : Backend,
      (gatherRows m { schema := s, ds := ds, b := b } t req).hits.filter
          (fun h => C04.selected (withBackends req ids) h.b) =
        if C04.selected (withBackends req ids) b then
          (gatherRows m { schema := s, ds := ds, b := b } t req).hits else [] := by
    intro b
    apply filter_all_or_none
    intro h hh
    have := C04.hit_source m _ t req h hh
    simp only at this
    rw [this]
  simp only [h1]
  rw [flatMap_ite, List.filter_filter]
  congr 1
  apply List.filter_congr
  intro b hb
  cases h : C04.selected (withBackends req ids) b
  · simp
  · simp [hsub b hb h]

end Lmd.Union
