/-
  Lmd.Lemmas.SyncLemmas — helper lemmas for the properties C02 (initial synchronisation), C12
  (comments / downtimes delta) and C19 (export / import round trip):

  * the primary-key order `keyLe` on rows of one table (shape of the key tuples, exchange,
    transitivity, sortedness and uniqueness of the sorted result);
  * cell access of `coerceRow` and `Row.setCell`;
  * `attachedIds`, `buildIdLists`, `Cache.get` / `Cache.set`, `rebuildLists`;
  * `maxIdOrSizeChanged` and `syncEntries`;
  * `coerce ∘ valJson ∘ coerce`.
-/
import Lmd.Peer
import Lmd.Render

namespace Lmd.SyncLemmas
open Lean (Json JsonNumber)

/-! ## 1. the order of key tuples -/

/-- the constructor of a key component -/
def isNum : KeyPart → Bool
  | .num _ => true
  | .str _ => false

/-- two key tuples have the same length and the same constructor at every position -/
def Compat (a b : List KeyPart) : Prop := a.map isNum = b.map isNum

theorem Compat.refl (a : List KeyPart) : Compat a a := rfl
theorem Compat.symm {a b : List KeyPart} (h : Compat a b) : Compat b a := Eq.symm h
theorem Compat.trans {a b c : List KeyPart} (h₁ : Compat a b) (h₂ : Compat b c) : Compat a c :=
  Eq.trans h₁ h₂

theorem cmpKeyPart_swap (a b : KeyPart) : cmpKeyPart b a = (cmpKeyPart a b).swap := by
  cases a <;> cases b <;> simp only [cmpKeyPart, Ordering.swap_eq]
  · exact Std.OrientedCmp.eq_swap
  · exact Std.OrientedCmp.eq_swap

theorem cmpKeyPart_eq_iff {a b : KeyPart} (h : isNum a = isNum b) :
    cmpKeyPart a b = .eq ↔ a = b := by
  cases a <;> cases b <;> simp [isNum] at h
  · simp only [cmpKeyPart, KeyPart.num.injEq]
    exact Std.LawfulEqCmp.compare_eq_iff_eq
  · simp only [cmpKeyPart, KeyPart.str.injEq]
    exact Std.LawfulEqCmp.compare_eq_iff_eq

theorem cmpKeyPart_lt_trans {a b c : KeyPart} (hab : isNum a = isNum b) (hbc : isNum b = isNum c)
    (h₁ : cmpKeyPart a b = .lt) (h₂ : cmpKeyPart b c = .lt) : cmpKeyPart a c = .lt := by
  cases a <;> cases b <;> simp [isNum] at hab <;> cases c <;> simp [isNum] at hbc
  · simp only [cmpKeyPart] at *
    exact Std.TransCmp.lt_trans h₁ h₂
  · simp only [cmpKeyPart] at *
    exact Std.TransCmp.lt_trans h₁ h₂

/-- exchanging the two key tuples exchanges the outcome -/
theorem cmpKeyParts_swap : ∀ a b : List KeyPart, cmpKeyParts b a = (cmpKeyParts a b).swap
  | [], [] => by simp [cmpKeyParts]
  | [], _ :: _ => by simp [cmpKeyParts]
  | _ :: _, [] => by simp [cmpKeyParts]
  | x :: xs, y :: ys => by
    simp only [cmpKeyParts]
    rw [cmpKeyPart_swap x y]
    cases h : cmpKeyPart x y <;> simp [cmpKeyParts_swap xs ys]

/-- on compatible tuples "compares equal" is equality -/
theorem cmpKeyParts_eq_iff : ∀ {a b : List KeyPart}, Compat a b → (cmpKeyParts a b = .eq ↔ a = b)
  | [], [], _ => by simp [cmpKeyParts]
  | [], _ :: _, h => by simp [Compat] at h
  | _ :: _, [], h => by simp [Compat] at h
  | x :: xs, y :: ys, h => by
    simp only [Compat, List.map_cons, List.cons.injEq] at h
    have hp := cmpKeyPart_eq_iff h.1
    have ih := cmpKeyParts_eq_iff (a := xs) (b := ys) h.2
    simp only [cmpKeyParts, List.cons.injEq]
    cases hc : cmpKeyPart x y with
    | eq => simp [hp.mp hc, ih]
    | lt =>
      have : x ≠ y := fun e => by rw [hp.mpr e] at hc; cases hc
      simp [this]
    | gt =>
      have : x ≠ y := fun e => by rw [hp.mpr e] at hc; cases hc
      simp [this]

/-- "not after" is transitive on compatible tuples -/
theorem cmpKeyParts_le_trans : ∀ {a b c : List KeyPart}, Compat a b → Compat b c →
    cmpKeyParts a b ≠ .gt → cmpKeyParts b c ≠ .gt → cmpKeyParts a c ≠ .gt
  | [], _, [], _, _, _, _ => by simp [cmpKeyParts]
  | [], _, _ :: _, _, _, _, _ => by simp [cmpKeyParts]
  | _ :: _, _, [], _, _, _, _ => by simp [cmpKeyParts]
  | x :: xs, [], z :: zs, h, _, _, _ => by simp [Compat] at h
  | x :: xs, y :: ys, z :: zs, hab, hbc, h₁, h₂ => by
    simp only [Compat, List.map_cons, List.cons.injEq] at hab hbc
    have ih := cmpKeyParts_le_trans (a := xs) (b := ys) (c := zs) hab.2 hbc.2
    simp only [cmpKeyParts] at h₁ h₂ ⊢
    cases hxy : cmpKeyPart x y with
    | gt => simp [hxy] at h₁
    | eq =>
      have e : x = y := (cmpKeyPart_eq_iff hab.1).mp hxy
      subst e
      simp only [hxy] at h₁
      cases hyz : cmpKeyPart x z with
      | gt => simp [hyz] at h₂
      | lt => simp
      | eq =>
        simp only [hyz] at h₂ ⊢
        exact ih h₁ h₂
    | lt =>
      cases hyz : cmpKeyPart y z with
      | gt => simp [hyz] at h₂
      | eq =>
        have e : y = z := (cmpKeyPart_eq_iff hbc.1).mp hyz
        subst e
        simp [hxy]
      | lt =>
        have := cmpKeyPart_lt_trans hab.1 hbc.1 hxy hyz
        simp [this]

/-! ## 2. cells of `coerceRow` and `Row.setCell` -/

/-- the text cell of a row (`""` when absent or not a text) -/
def strCell (r : Row) (n : String) : String :=
  match r.cell? n with
  | some (.s v) => v
  | _ => ""

theorem col?_name {t : Table} {n : String} {c : Column} (h : t.col? n = some c) : c.name = n := by
  have := List.find?_some h
  simpa using this

theorem col?_self {t : Table} {n : String} {c : Column} (h : t.col? n = some c) :
    t.col? c.name = some c := by rw [col?_name h]; exact h

/-- what `coerceRow` keeps of one delivered value -/
def cellOf (t : Table) (p : String × Json) : Option (String × Val) :=
  match t.col? p.1 with
  | some c => if c.storage == .loc then some (p.1, coerce c.dtype p.2) else none
  | none => none

theorem coerceRow_eq (t : Table) (r : ReplyRow) : coerceRow t r = { cells := r.filterMap (cellOf t) } := rfl

theorem cellOf_name {t : Table} {p : String × Json} {q : String × Val} (h : cellOf t p = some q) :
    q.1 = p.1 := by
  unfold cellOf at h
  split at h
  · split at h
    · cases h; rfl
    · cases h
  · cases h

/-- the cell `coerceRow` stores under a name: the coerced first delivered value, if the table has a
    locally stored column of that name -/
theorem coerceRow_cell? (t : Table) (r : ReplyRow) (n : String) :
    (coerceRow t r).cell? n =
      match t.col? n with
      | some c =>
        if c.storage == .loc then (r.find? (·.1 == n)).map (fun p => coerce c.dtype p.2) else none
      | none => none := by
  rw [coerceRow_eq]
  unfold Row.cell?
  simp only
  induction r with
  | nil =>
    simp only [List.filterMap_nil, List.find?_nil, Option.map_none]
    split
    · split <;> rfl
    · rfl
  | cons p r ih =>
    rw [List.filterMap_cons]
    by_cases hm : p.1 = n
    · have hpn : (p.1 == n) = true := by simpa using hm
      rw [List.find?_cons_of_pos (l := r) (p := fun x : String × Json => x.1 == n) hpn]
      cases hc : t.col? n with
      | none =>
        have hcell : cellOf t p = none := by unfold cellOf; rw [hm, hc]
        simp only [hcell]
        rw [ih, hc]
      | some c =>
        by_cases hs : (c.storage == Storage.loc) = true
        · have hcell : cellOf t p = some (p.1, coerce c.dtype p.2) := by
            unfold cellOf; rw [hm, hc]; simp only [hs, if_true]
          simp only [hcell, hs, if_true, Option.map_some]
          rw [List.find?_cons_of_pos (p := fun x : String × Val => x.1 == n) (by exact hpn)]
          rfl
        · have hcell : cellOf t p = none := by
            unfold cellOf; rw [hm, hc]; simp only [hs]; rfl
          simp only [hcell]
          rw [ih, hc]
          simp [hs]
    · have hpn : ¬ (p.1 == n) = true := by simpa using hm
      rw [List.find?_cons_of_neg (l := r) (p := fun x : String × Json => x.1 == n) hpn, ← ih]
      cases hcell : cellOf t p with
      | none => rfl
      | some q =>
        simp only
        have hq : ¬ (q.1 == n) = true := by rw [cellOf_name hcell]; exact hpn
        rw [List.find?_cons_of_neg (p := fun x : String × Val => x.1 == n) hq]

theorem setCell_cell?_self (r : Row) (n : String) (v : Val) : (r.setCell n v).cell? n = some v := by
  unfold Row.setCell Row.cell?
  have h : List.find? (fun x => x.1 == n) (List.filter (fun x => x.1 != n) r.cells) = none := by
    rw [List.find?_eq_none]
    intro x hx
    have := (List.mem_filter.mp hx).2
    simpa using this
  simp [List.find?_append, h]

theorem setCell_cell?_other (r : Row) (n m : String) (v : Val) (h : m ≠ n) :
    (r.setCell n v).cell? m = r.cell? m := by
  unfold Row.setCell Row.cell?
  have hnm : (n == m) = false := by simpa using fun e : n = m => h e.symm
  have hf : List.find? (fun x => x.1 == m) (List.filter (fun x => x.1 != n) r.cells) =
      List.find? (fun x => x.1 == m) r.cells := by
    induction r.cells with
    | nil => rfl
    | cons p l ih =>
      by_cases hp : p.1 = n
      · have h1 : (p.1 != n) = false := by simp [hp]
        have h2 : (p.1 == m) = false := by rw [hp]; exact hnm
        simp [h1, h2, ih]
      · have h1 : (p.1 != n) = true := by simpa using hp
        simp only [List.filter_cons, h1, if_true, List.find?_cons]
        cases (p.1 == m) <;> simp [ih]
  simp only [List.find?_append, hf]
  cases List.find? (fun x => x.1 == m) r.cells <;> simp [hnm]

theorem setCell_strCell_other (r : Row) (n m : String) (v : Val) (h : m ≠ n) :
    strCell (r.setCell n v) m = strCell r m := by
  unfold strCell; rw [setCell_cell?_other r n m v h]

/-! ## 3. the key tuples of the rows of one table have one shape -/

def numType : DataType → Bool
  | .int | .int64 | .float => true
  | _ => false

/-- whether the key component of column `n` of table `t` is numeric (for rows stored by `coerceRow`) -/
def keyIsNum (t : Table) (n : String) : Bool :=
  match t.col? n with
  | some c =>
    if hasSuffix c.name "_lc" then
      match t.col? (trimSuffix c.name "_lc") with
      | some _ => false
      | none => numType c.dtype
    else numType c.dtype
  | none => false

/-- a row whose key tuple has the shape the table prescribes -/
def KeyShaped (t : Table) (r : Row) : Prop := (r.sortKey t).map isNum = t.primaryKey.map (keyIsNum t)

/-- the key component made of a typed value (the inner `match` of `keyPartOf`) -/
def partOfVal (d : DataType) (v : Val) : KeyPart :=
  match d, v with
  | .int, .i v | .int64, .i v => .num (v * 1000)
  | .float, .f m => .num m
  | _, v => .str v.asString

theorem keyPartOf_eq (t : Table) (r : Row) (n : String) :
    keyPartOf t r n =
      match t.col? n with
      | some c => partOfVal c.dtype (localVal t r c)
      | none => .str "" := by
  unfold keyPartOf partOfVal
  rfl

theorem partOfVal_isNum (d : DataType) (v : Val) (h : v = d.zero ∨ ∃ j, v = coerce d j) :
    isNum (partOfVal d v) = numType d := by
  rcases h with rfl | ⟨j, rfl⟩ <;> cases d <;> rfl

theorem partOfVal_str (d : DataType) (s : String) : isNum (partOfVal d (.s s)) = false := by
  cases d <;> rfl

theorem keyPartOf_coerceRow (t : Table) (r : ReplyRow) (n : String) :
    isNum (keyPartOf t (coerceRow t r) n) = keyIsNum t n := by
  rw [keyPartOf_eq]
  unfold keyIsNum
  cases hc : t.col? n with
  | none => rfl
  | some c =>
    simp only
    have hself := col?_self hc
    have hval : ¬ (hasSuffix c.name "_lc" = true ∧ (t.col? (trimSuffix c.name "_lc")).isSome) →
        (localVal t (coerceRow t r) c = c.dtype.zero ∨ ∃ j, localVal t (coerceRow t r) c = coerce c.dtype j) := by
      intro hno
      have hv : localVal t (coerceRow t r) c = ((coerceRow t r).cell? c.name).getD c.dtype.zero := by
        unfold localVal
        by_cases hs : hasSuffix c.name "_lc" = true
        · simp only [hs, if_true]
          cases hb : t.col? (trimSuffix c.name "_lc") with
          | none => rfl
          | some b => exact absurd ⟨hs, by simp [hb]⟩ hno
        · simp [hs]
      rw [hv, coerceRow_cell?, hself]
      simp only
      by_cases hl : (c.storage == Storage.loc) = true
      · simp only [hl, if_true]
        cases List.find? (fun x => x.1 == c.name) r with
        | none => left; rfl
        | some p => right; exact ⟨p.2, rfl⟩
      · simp [hl]
    by_cases hs : hasSuffix c.name "_lc" = true
    · simp only [hs, if_true]
      cases hb : t.col? (trimSuffix c.name "_lc") with
      | some b =>
        have : ∃ s, localVal t (coerceRow t r) c = .s s := by
          unfold localVal
          simp only [hs, if_true, hb]
          split <;> exact ⟨_, rfl⟩
        obtain ⟨s, hs'⟩ := this
        rw [hs']
        exact partOfVal_str _ _
      | none =>
        exact partOfVal_isNum c.dtype _ (hval (by simp [hb]))
    · have hs' : hasSuffix c.name "_lc" = false := by simpa using hs
      simp only [hs']
      exact partOfVal_isNum c.dtype _ (hval (by simp [hs]))

theorem keyShaped_coerceRow (t : Table) (r : ReplyRow) : KeyShaped t (coerceRow t r) := by
  unfold KeyShaped Row.sortKey
  rw [List.map_map]
  apply List.map_congr_left
  intro n _
  exact keyPartOf_coerceRow t r n

theorem KeyShaped.compat {t : Table} {a b : Row} (ha : KeyShaped t a) (hb : KeyShaped t b) :
    Compat (a.sortKey t) (b.sortKey t) := Eq.trans ha (Eq.symm hb)

/-! ## 4. `keyLe` as a total preorder on the rows of one table, sorting -/

theorem keyLe_iff (t : Table) (a b : Row) :
    keyLe t a b = true ↔ cmpKeyParts (a.sortKey t) (b.sortKey t) ≠ .gt := by
  simp [keyLe]

theorem keyLe_total' (t : Table) (a b : Row) : keyLe t a b = true ∨ keyLe t b a = true := by
  rw [keyLe_iff, keyLe_iff, cmpKeyParts_swap (a.sortKey t) (b.sortKey t)]
  cases cmpKeyParts (a.sortKey t) (b.sortKey t) <;> simp

theorem keyLe_trans' {t : Table} {a b c : Row} (ha : KeyShaped t a) (hb : KeyShaped t b)
    (hc : KeyShaped t c) (h₁ : keyLe t a b = true) (h₂ : keyLe t b c = true) : keyLe t a c = true := by
  rw [keyLe_iff] at *
  exact cmpKeyParts_le_trans (ha.compat hb) (hb.compat hc) h₁ h₂

/-- both ways "not after" means the key tuples are equal -/
theorem keyLe_antisymm {t : Table} {a b : Row}
    (h₁ : keyLe t a b = true) (h₂ : keyLe t b a = true) :
    cmpKeyParts (a.sortKey t) (b.sortKey t) = .eq := by
  rw [keyLe_iff] at *
  rw [cmpKeyParts_swap (a.sortKey t) (b.sortKey t)] at h₂
  cases h : cmpKeyParts (a.sortKey t) (b.sortKey t) <;> simp_all

/-- `mergeSort` orders a list when the comparison is a total preorder on the members of the list -/
theorem pairwise_mergeSort_on {α : Type} (P : α → Prop) (le : α → α → Bool)
    (total : ∀ a b, P a → P b → le a b = true ∨ le b a = true)
    (trans : ∀ a b c, P a → P b → P c → le a b = true → le b c = true → le a c = true)
    (l : List α) (hl : ∀ a ∈ l, P a) :
    (l.mergeSort le).Pairwise (fun a b => le a b = true) := by
  let le' : {a // P a} → {a // P a} → Bool := fun a b => le a.1 b.1
  have hmap : ((l.attachWith P hl).mergeSort le').map Subtype.val = l.mergeSort le := by
    have := List.map_mergeSort (r := le') (s := le) (f := Subtype.val) (l := l.attachWith P hl)
      (fun _ _ _ _ => rfl)
    rw [this, List.attachWith_map_subtype_val]
  have hp : ((l.attachWith P hl).mergeSort le').Pairwise (fun a b => le' a b = true) :=
    List.pairwise_mergeSort
      (fun a b c hab hbc => trans a.1 b.1 c.1 a.2 b.2 c.2 hab hbc)
      (fun a b => by
        cases total a.1 b.1 a.2 b.2 with
        | inl h => simp [le', h]
        | inr h => simp [le', h])
      _
  rw [← hmap, List.pairwise_map]
  exact hp

theorem pairwise_mem_ne {α : Type} {R : α → α → Prop} {l : List α} (h : l.Pairwise R)
    {a b : α} (ha : a ∈ l) (hb : b ∈ l) (hne : a ≠ b) : R a b ∨ R b a := by
  induction l with
  | nil => cases ha
  | cons x l ih =>
    rw [List.pairwise_cons] at h
    rcases List.mem_cons.mp ha with rfl | ha' <;> rcases List.mem_cons.mp hb with rfl | hb'
    · exact absurd rfl hne
    · exact Or.inl (h.1 _ hb')
    · exact Or.inr (h.1 _ ha')
    · exact ih h.2 ha' hb'

/-- the sort keys of the coerced rows of a reply are pairwise different -/
def DistinctKeys (t : Table) (reply : List ReplyRow) : Prop :=
  (reply.map (coerceRow t)).Pairwise
    (fun a b => cmpKeyParts (a.sortKey t) (b.sortKey t) ≠ .eq)

theorem syncTable_pairwise (t : Table) (reply : List ReplyRow) :
    (syncTable t reply).Pairwise (fun a b => keyLe t a b = true) := by
  unfold syncTable
  by_cases he : t.primaryKey.isEmpty = true
  · simp only [he, if_true]
    have hk : ∀ a b : Row, keyLe t a b = true := by
      intro a b
      have : t.primaryKey = [] := by simpa using he
      simp [keyLe, Row.sortKey, this, cmpKeyParts]
    exact List.Pairwise.imp (fun _ => hk _ _) (List.pairwise_of_forall (R := fun _ _ => True) (fun _ _ => trivial))
  · simp only [he]
    apply pairwise_mergeSort_on (KeyShaped t) (keyLe t) (fun a b _ _ => keyLe_total' t a b)
      (fun a b c ha hb hc => keyLe_trans' ha hb hc)
    intro a ha
    obtain ⟨r, _, rfl⟩ := List.mem_map.mp ha
    exact keyShaped_coerceRow t r

theorem syncTable_perm_rows (t : Table) (reply : List ReplyRow) :
    (syncTable t reply).Perm (reply.map (coerceRow t)) := by
  unfold syncTable
  by_cases he : t.primaryKey.isEmpty = true
  · simp only [he, if_true]; exact List.Perm.refl _
  · simp only [he]; exact List.mergeSort_perm _ _

theorem syncTable_perm_eq (t : Table) (r₁ r₂ : List ReplyRow) (hperm : r₁.Perm r₂)
    (hd : DistinctKeys t r₁) : syncTable t r₁ = syncTable t r₂ := by
  by_cases he : t.primaryKey.isEmpty = true
  · -- no primary key: all keys compare equal, so there is at most one row
    have hpk : t.primaryKey = [] := by simpa using he
    unfold syncTable
    simp only [he, if_true]
    cases r₁ with
    | nil => rw [List.nil_perm.mp hperm]
    | cons x l =>
      cases l with
      | nil => rw [← List.singleton_perm.mp hperm]
      | cons y l' =>
        exfalso
        have := (List.pairwise_cons.mp hd).1 (coerceRow t y) (by simp)
        simp [Row.sortKey, hpk, cmpKeyParts] at this
  · have hp : (syncTable t r₁).Perm (syncTable t r₂) :=
      (syncTable_perm_rows t r₁).trans ((hperm.map _).trans (syncTable_perm_rows t r₂).symm)
    refine List.Perm.eq_of_pairwise (le := fun a b => keyLe t a b = true) ?_
      (syncTable_pairwise t r₁) (syncTable_pairwise t r₂) hp
    intro a b ha hb hab hba
    have ha' : a ∈ r₁.map (coerceRow t) := (syncTable_perm_rows t r₁).mem_iff.mp ha
    have hb' : b ∈ r₁.map (coerceRow t) :=
      (syncTable_perm_rows t r₁).mem_iff.mp (hp.mem_iff.mpr hb)
    have heq := keyLe_antisymm hab hba
    apply Classical.byContradiction
    intro hne
    rcases pairwise_mem_ne hd ha' hb' hne with h | h
    · exact h heq
    · rw [cmpKeyParts_swap (a.sortKey t) (b.sortKey t), heq] at h
      exact h rfl

/-! ## 5. `attachedIds`, `buildIdLists`, the cache tables, `rebuildLists` -/

theorem attachedIds_eq (entries : List Row) (h s : String) :
    attachedIds entries h s =
      (entries.filter fun e => strCell e "host_name" == h && strCell e "service_description" == s).map
        (·.int "id") := rfl

theorem mem_attachedIds {entries : List Row} {h s : String} {i : Int} :
    i ∈ attachedIds entries h s ↔
      ∃ e ∈ entries, e.int "id" = i ∧ strCell e "host_name" = h ∧ strCell e "service_description" = s := by
  rw [attachedIds_eq]
  simp only [List.mem_map, List.mem_filter, Bool.and_eq_true, beq_iff_eq]
  constructor
  · rintro ⟨e, ⟨he, h1, h2⟩, hi⟩; exact ⟨e, he, hi, h1, h2⟩
  · rintro ⟨e, he, hi, h1, h2⟩; exact ⟨e, ⟨he, h1, h2⟩, hi⟩

/-- the new id list of a host row -/
def hostIds (entries : List Row) (h : Row) : List Int := attachedIds entries (strCell h "name") ""

/-- the new id list of a service row -/
def serviceIds (entries : List Row) (s : Row) : List Int :=
  if strCell s "description" == "" then [] else attachedIds entries (strCell s "host_name") (strCell s "description")

theorem buildIdLists_fst (name : String) (entries hosts services : List Row) :
    (buildIdLists name entries hosts services).1 =
      hosts.map fun h => h.setCell name (.il (hostIds entries h)) := rfl

theorem buildIdLists_snd (name : String) (entries hosts services : List Row) :
    (buildIdLists name entries hosts services).2 =
      services.map fun s => s.setCell name (.il (serviceIds entries s)) := rfl

/-- what `Cache.set` does to one entry of the cache -/
def setFn (t : String) (rs : List Row) (x : String × List Row) : String × List Row :=
  if x.1 == t then (x.1, rs) else (x.1, x.2)

theorem Cache.set_eq (c : Cache) (t : String) (rs : List Row) :
    c.set t rs = if c.any (·.1 == t) then c.map (setFn t rs) else c ++ [(t, rs)] := rfl

theorem Cache.get_eq (c : Cache) (t : String) :
    c.get t = ((c.find? (·.1 == t)).map (·.2)).getD [] := by
  unfold Cache.get
  cases List.find? (fun x => x.1 == t) c with
  | none => rfl
  | some p => rfl

theorem find?_map_setFn_self (t : String) (rs : List Row) :
    ∀ c : List (String × List Row), c.any (·.1 == t) = true →
      ((c.map (setFn t rs)).find? (·.1 == t)).map (·.2) = some rs
  | [], h => by simp at h
  | (n, old) :: c, h => by
    by_cases hn : (n == t) = true
    · have hg : setFn t rs (n, old) = (n, rs) := by simp only [setFn, hn, if_true]
      rw [List.map_cons, hg, List.find?_cons_of_pos (p := fun x : String × List Row => x.1 == t) hn]
      rfl
    · have hg : setFn t rs (n, old) = (n, old) := by simp only [setFn, hn]; rfl
      have h' : c.any (·.1 == t) = true := by
        rw [List.any_cons] at h
        have hn' : (n == t) = false := by simpa using hn
        simpa [hn'] using h
      rw [List.map_cons, hg, List.find?_cons_of_neg (p := fun x : String × List Row => x.1 == t) hn]
      exact find?_map_setFn_self t rs c h'

theorem find?_map_setFn_other (t t' : String) (rs : List Row) (htt : (t == t') = false) :
    ∀ c : List (String × List Row),
      ((c.map (setFn t rs)).find? (·.1 == t')).map (·.2) = (c.find? (·.1 == t')).map (·.2)
  | [] => rfl
  | (n, old) :: c => by
    have ih := find?_map_setFn_other t t' rs htt c
    by_cases hn : (n == t) = true
    · have hg : setFn t rs (n, old) = (n, rs) := by simp only [setFn, hn, if_true]
      have hnt : n = t := by simpa using hn
      have hn2 : ¬ (n == t') = true := by rw [hnt, htt]; simp
      rw [List.map_cons, hg, List.find?_cons_of_neg (p := fun x : String × List Row => x.1 == t') hn2,
        List.find?_cons_of_neg (p := fun x : String × List Row => x.1 == t') hn2]
      exact ih
    · have hg : setFn t rs (n, old) = (n, old) := by simp only [setFn, hn]; rfl
      rw [List.map_cons, hg]
      by_cases hn2 : (n == t') = true
      · rw [List.find?_cons_of_pos (p := fun x : String × List Row => x.1 == t') hn2,
          List.find?_cons_of_pos (p := fun x : String × List Row => x.1 == t') hn2]
      · rw [List.find?_cons_of_neg (p := fun x : String × List Row => x.1 == t') hn2,
          List.find?_cons_of_neg (p := fun x : String × List Row => x.1 == t') hn2]
        exact ih

theorem Cache.get_set_self (c : Cache) (t : String) (rs : List Row) : (c.set t rs).get t = rs := by
  rw [Cache.get_eq, Cache.set_eq]
  by_cases ha : c.any (·.1 == t) = true
  · rw [if_pos ha, find?_map_setFn_self t rs c ha]; rfl
  · rw [if_neg ha]
    have hnone : List.find? (fun x => x.1 == t) c = none := by
      rw [List.find?_eq_none]
      intro x hx hxt
      exact ha (List.any_eq_true.mpr ⟨x, hx, hxt⟩)
    simp [List.find?_append, hnone]

theorem Cache.get_set_other (c : Cache) (t t' : String) (rs : List Row) (h : t' ≠ t) :
    (c.set t rs).get t' = c.get t' := by
  have htt : (t == t') = false := by simpa using fun e : t = t' => h e.symm
  rw [Cache.get_eq, Cache.get_eq, Cache.set_eq]
  by_cases ha : c.any (·.1 == t) = true
  · rw [if_pos ha, find?_map_setFn_other t t' rs htt c]
  · rw [if_neg ha, List.find?_append]
    cases List.find? (fun x => x.1 == t') c <;> simp [htt]

theorem rebuildLists_eq (c : Cache) :
    rebuildLists c =
      ((c.set "hosts"
        (buildIdLists "downtimes" (c.get "downtimes")
          (buildIdLists "comments" (c.get "comments") (c.get "hosts") (c.get "services")).1
          (buildIdLists "comments" (c.get "comments") (c.get "hosts") (c.get "services")).2).1).set "services"
        (buildIdLists "downtimes" (c.get "downtimes")
          (buildIdLists "comments" (c.get "comments") (c.get "hosts") (c.get "services")).1
          (buildIdLists "comments" (c.get "comments") (c.get "hosts") (c.get "services")).2).2) := rfl

theorem strCell_setCell_il (r : Row) (n m : String) (v : Val) (h : m ≠ n) :
    strCell (r.setCell n v) m = strCell r m := setCell_strCell_other r n m v h

theorem hostIds_setCell (entries : List Row) (h : Row) (n : String) (v : Val) (hn : "name" ≠ n) :
    hostIds entries (h.setCell n v) = hostIds entries h := by
  unfold hostIds; rw [setCell_strCell_other _ _ _ _ hn]

theorem serviceIds_setCell (entries : List Row) (s : Row) (n : String) (v : Val)
    (h1 : "host_name" ≠ n) (h2 : "description" ≠ n) :
    serviceIds entries (s.setCell n v) = serviceIds entries s := by
  unfold serviceIds; rw [setCell_strCell_other _ _ _ _ h1, setCell_strCell_other _ _ _ _ h2]

/-- the hosts table after `rebuildLists`: every host row gets both id lists, computed from the
    comments and downtimes tables -/
theorem rebuildLists_hosts (c : Cache) :
    (rebuildLists c).get "hosts" =
      (c.get "hosts").map fun h =>
        (h.setCell "comments" (.il (hostIds (c.get "comments") h))).setCell "downtimes"
          (.il (hostIds (c.get "downtimes") h)) := by
  rw [rebuildLists_eq, Cache.get_set_other _ _ _ _ (by decide), Cache.get_set_self,
    buildIdLists_fst, buildIdLists_fst, List.map_map]
  apply List.map_congr_left
  intro h _
  simp only [Function.comp]
  rw [hostIds_setCell _ _ _ _ (by decide)]

theorem rebuildLists_services (c : Cache) :
    (rebuildLists c).get "services" =
      (c.get "services").map fun s =>
        (s.setCell "comments" (.il (serviceIds (c.get "comments") s))).setCell "downtimes"
          (.il (serviceIds (c.get "downtimes") s)) := by
  rw [rebuildLists_eq, Cache.get_set_self, buildIdLists_snd, buildIdLists_snd, List.map_map]
  apply List.map_congr_left
  intro s _
  simp only [Function.comp]
  rw [serviceIds_setCell _ _ _ _ (by decide) (by decide)]

theorem rebuildLists_other (c : Cache) (t : String) (h1 : t ≠ "hosts") (h2 : t ≠ "services") :
    (rebuildLists c).get t = c.get t := by
  rw [rebuildLists_eq, Cache.get_set_other _ _ _ _ h2, Cache.get_set_other _ _ _ _ h1]

/-! ## 6. `maxIdOrSizeChanged` and `syncEntries` -/

theorem le_foldl_max (f : ReplyRow → Int) (l : List ReplyRow) (m : Int) :
    m ≤ l.foldl (fun m r => max m (f r)) m ∧ ∀ r ∈ l, f r ≤ l.foldl (fun m r => max m (f r)) m := by
  induction l generalizing m with
  | nil => simp
  | cons x l ih =>
    simp only [List.foldl_cons, List.mem_cons, forall_eq_or_imp]
    have h := ih (max m (f x))
    refine ⟨by omega, by omega, h.2⟩

theorem subset_of_nodup_of_length_le {l₁ : List Int} (hn : l₁.Nodup) :
    ∀ {l₂ : List Int}, (∀ x ∈ l₁, x ∈ l₂) → l₂.length ≤ l₁.length → ∀ x ∈ l₂, x ∈ l₁ := by
  induction l₁ with
  | nil =>
    intro l₂ _ hlen x hx
    have : l₂ = [] := List.eq_nil_of_length_eq_zero (by simpa using hlen)
    rw [this] at hx; cases hx
  | cons a l ih =>
    intro l₂ hsub hlen x hx
    rw [List.nodup_cons] at hn
    have ha : a ∈ l₂ := hsub a (by simp)
    have hsub' : ∀ y ∈ l, y ∈ l₂.erase a := by
      intro y hy
      have hya : y ≠ a := fun e => hn.1 (e ▸ hy)
      exact (List.mem_erase_of_ne hya).mpr (hsub y (by simp [hy]))
    have hlen' : (l₂.erase a).length ≤ l.length := by
      rw [List.length_erase_of_mem ha]
      simp only [List.length_cons] at hlen
      omega
    by_cases hxa : x = a
    · simp [hxa]
    · exact List.mem_cons_of_mem _ (ih hn.2 hsub' hlen' x ((List.mem_erase_of_ne hxa).mpr hx))

theorem maxIdOrSizeChanged_eq_false {cached : List Row} {backend : List ReplyRow}
    (h : maxIdOrSizeChanged cached backend = false) :
    cached.length = backend.length ∧
      (cached = [] ∨ ∃ last, cached.getLast? = some last ∧
        backend.foldl (fun m r => max m (replyId r)) 0 = last.int "id") := by
  unfold maxIdOrSizeChanged at h
  simp only [Bool.not_eq_false', Bool.and_eq_true, Bool.or_eq_true, beq_iff_eq] at h
  refine ⟨by have := h.1; omega, ?_⟩
  rcases h.2 with h0 | hm
  · left; exact List.eq_nil_of_length_eq_zero h0
  · cases hl : cached.getLast? with
    | none => left; simpa using hl
    | some last => right; refine ⟨last, rfl, ?_⟩; simpa [hl] using hm

theorem syncEntries_eq (tab : Table) (cached : List Row) (backend : List ReplyRow) :
    syncEntries tab cached backend =
      cached.filter (fun r => (backend.map replyId).contains (r.int "id")) ++
        (backend.filter (fun r => !(cached.map (·.int "id")).contains (replyId r))).map (coerceRow tab) := rfl

/-- the table of a comments / downtimes store: numeric `id`, text `host_name` and
    `service_description`, all locally stored -/
structure EntryTable (tab : Table) : Prop where
  id : ∃ c, tab.col? "id" = some c ∧ c.storage = .loc ∧ c.dtype = .int64
  host : ∃ c, tab.col? "host_name" = some c ∧ c.storage = .loc ∧ c.dtype = .str
  svc : ∃ c, tab.col? "service_description" = some c ∧ c.storage = .loc ∧ c.dtype = .str

theorem coerceRow_int_id {tab : Table}
    (hid : ∃ c, tab.col? "id" = some c ∧ c.storage = .loc ∧ c.dtype = .int64) (r : ReplyRow) :
    (coerceRow tab r).int "id" = replyId r := by
  obtain ⟨c, hc, hl, hd⟩ := hid
  unfold Row.int replyId replyInt
  rw [coerceRow_cell?, hc]
  simp only [hl, hd, beq_self_eq_true, if_true]
  cases List.find? (fun x => x.1 == "id") r with
  | none => rfl
  | some p => rfl

theorem coerceRow_strCell {tab : Table} {n : String}
    (h : ∃ c, tab.col? n = some c ∧ c.storage = .loc ∧ c.dtype = .str) (r : ReplyRow) :
    strCell (coerceRow tab r) n = replyStr r n := by
  obtain ⟨c, hc, hl, hd⟩ := h
  unfold strCell replyStr
  rw [coerceRow_cell?, hc]
  simp only [hl, hd, beq_self_eq_true, if_true]
  cases List.find? (fun x => x.1 == n) r with
  | none => rfl
  | some p => rfl

theorem changed_of_ids_differ {cached : List Row} {backend : List ReplyRow}
    (hbn : (backend.map replyId).Nodup)
    (hfresh : ∀ r ∈ backend, replyId r ∉ cached.map (·.int "id") →
      ∀ c ∈ cached, c.int "id" < replyId r)
    (hdiff : ¬ ∀ i, i ∈ backend.map replyId ↔ i ∈ cached.map (·.int "id")) :
    maxIdOrSizeChanged cached backend = true := by
  cases h : maxIdOrSizeChanged cached backend with
  | true => rfl
  | false =>
    exfalso
    obtain ⟨hlen, hcase⟩ := maxIdOrSizeChanged_eq_false h
    have hsub : ∀ i ∈ backend.map replyId, i ∈ cached.map (·.int "id") := by
      intro i hi
      obtain ⟨r, hr, rfl⟩ := List.mem_map.mp hi
      apply Classical.byContradiction
      intro hnot
      rcases hcase with hnil | ⟨last, hlast, hmax⟩
      · subst hnil
        have : backend = [] := List.eq_nil_of_length_eq_zero (by simpa using hlen.symm)
        rw [this] at hr; cases hr
      · have hmem : last ∈ cached := List.mem_of_getLast? hlast
        have h1 := hfresh r hr hnot last hmem
        have h2 := (le_foldl_max replyId backend 0).2 r hr
        omega
    exact hdiff fun i =>
      ⟨hsub i, subset_of_nodup_of_length_le hbn hsub (by simp [hlen]) i⟩

theorem syncEntries_ids {tab : Table}
    (hid : ∃ c, tab.col? "id" = some c ∧ c.storage = .loc ∧ c.dtype = .int64)
    (cached : List Row) (backend : List ReplyRow) :
    (syncEntries tab cached backend).map (·.int "id") =
      (cached.map (·.int "id")).filter (fun i => (backend.map replyId).contains i) ++
        (backend.map replyId).filter (fun i => !(cached.map (·.int "id")).contains i) := by
  rw [syncEntries_eq, List.map_append, List.filter_map, List.filter_map, List.map_map]
  congr 1
  apply List.map_congr_left
  intro r _
  exact coerceRow_int_id hid r

theorem mem_syncEntries_ids {tab : Table}
    (hid : ∃ c, tab.col? "id" = some c ∧ c.storage = .loc ∧ c.dtype = .int64)
    (cached : List Row) (backend : List ReplyRow) (i : Int) :
    i ∈ (syncEntries tab cached backend).map (·.int "id") ↔ i ∈ backend.map replyId := by
  rw [syncEntries_ids hid]
  simp only [List.mem_append, List.mem_filter, List.contains_eq_mem, decide_eq_true_eq,
    Bool.not_eq_true', decide_eq_false_iff_not]
  constructor
  · rintro (⟨_, h⟩ | ⟨h, _⟩) <;> exact h
  · intro h
    by_cases hc : i ∈ cached.map (·.int "id")
    · exact Or.inl ⟨hc, h⟩
    · exact Or.inr ⟨h, hc⟩

theorem mem_syncEntries {tab : Table} {cached : List Row} {backend : List ReplyRow} {row : Row} :
    row ∈ syncEntries tab cached backend ↔
      (row ∈ cached ∧ row.int "id" ∈ backend.map replyId) ∨
      ∃ r ∈ backend, replyId r ∉ cached.map (·.int "id") ∧ coerceRow tab r = row := by
  rw [syncEntries_eq]
  simp only [List.mem_append, List.mem_filter, List.mem_map, List.contains_eq_mem,
    decide_eq_true_eq, Bool.not_eq_true', decide_eq_false_iff_not]
  constructor
  · rintro (h | ⟨r, ⟨hr, hn⟩, e⟩)
    · exact Or.inl h
    · exact Or.inr ⟨r, hr, hn, e⟩
  · rintro (h | ⟨r, hr, hn, e⟩)
    · exact Or.inl h
    · exact Or.inr ⟨r, ⟨hr, hn⟩, e⟩

/-- the cached entries agree with the backend rows of the same id on what they are attached to
    (comments and downtimes never move to another object) -/
def Faithful (cached : List Row) (backend : List ReplyRow) : Prop :=
  ∀ c ∈ cached, ∀ r ∈ backend, c.int "id" = replyId r →
    strCell c "host_name" = replyStr r "host_name" ∧
    strCell c "service_description" = replyStr r "service_description"

theorem mem_attachedIds_syncEntries {tab : Table} (ht : EntryTable tab) {cached : List Row}
    {backend : List ReplyRow} (hf : Faithful cached backend) (h s : String) (i : Int) :
    i ∈ attachedIds (syncEntries tab cached backend) h s ↔
      ∃ r ∈ backend, replyId r = i ∧ replyStr r "host_name" = h ∧
        replyStr r "service_description" = s := by
  rw [mem_attachedIds]
  constructor
  · rintro ⟨e, he, hi, hh, hs⟩
    rcases mem_syncEntries.mp he with ⟨hc, hb⟩ | ⟨r, hr, _, rfl⟩
    · obtain ⟨r, hr, hri⟩ := List.mem_map.mp hb
      have := hf e hc r hr hri.symm
      exact ⟨r, hr, hri.trans hi, this.1 ▸ hh, this.2 ▸ hs⟩
    · refine ⟨r, hr, ?_, ?_, ?_⟩
      · rw [← coerceRow_int_id ht.id r]; exact hi
      · rw [← coerceRow_strCell ht.host r]; exact hh
      · rw [← coerceRow_strCell ht.svc r]; exact hs
  · rintro ⟨r, hr, hi, hh, hs⟩
    by_cases hc : replyId r ∈ cached.map (·.int "id")
    · obtain ⟨c, hcm, hci⟩ := List.mem_map.mp hc
      have := hf c hcm r hr hci
      refine ⟨c, mem_syncEntries.mpr (Or.inl ⟨hcm, ?_⟩), hci.trans hi, this.1.trans hh, this.2.trans hs⟩
      rw [hci]; exact List.mem_map.mpr ⟨r, hr, rfl⟩
    · refine ⟨coerceRow tab r, mem_syncEntries.mpr (Or.inr ⟨r, hr, hc, rfl⟩), ?_, ?_, ?_⟩
      · rw [coerceRow_int_id ht.id r]; exact hi
      · rw [coerceRow_strCell ht.host r]; exact hh
      · rw [coerceRow_strCell ht.svc r]; exact hs

/-! ## 7. export followed by import -/

theorem milliTrunc_mul (n : Int) : milliTrunc (n * 1000) = n := by
  unfold milliTrunc; exact Int.mul_tdiv_cancel n (by decide)

theorem jsonNumMilli_int (n : Int) : jsonNumMilli ⟨n, 0⟩ = n * 1000 := by
  unfold jsonNumMilli; simp

theorem jsonNumMilli_milli (m : Int) : jsonNumMilli ⟨m, 3⟩ = m := by
  unfold jsonNumMilli; simp

theorem checkInt8_idem (i : Int) : checkInt8 (checkInt8 i) = checkInt8 i := by
  unfold checkInt8; split <;> simp_all

theorem checkInt8_of_range {i : Int} (h : -128 ≤ i ∧ i ≤ 127) : checkInt8 i = i := by
  unfold checkInt8; split <;> omega

theorem checkInt8_out {i : Int} (h : i < -128 ∨ 127 < i) : checkInt8 i = 0 := by
  unfold checkInt8; split <;> omega

theorem int_roundtrip (n : Int) : milliTrunc (jsonToMilli (intJson n)) = n := by
  simp only [intJson, jsonToMilli, jsonNumMilli_int, milliTrunc_mul]

theorem strList_roundtrip (l : List String) : jsonToStrList (.arr (l.map Json.str).toArray) = l := by
  show (l.map Json.str).toArray.toList.map jsonToStr = l
  rw [List.toList_toArray, List.map_map]
  exact (List.map_congr_left (fun _ _ => rfl)).trans (List.map_id l)

theorem intList_roundtrip (l : List Int) : jsonToIntList (.arr (l.map intJson).toArray) = l := by
  show (l.map intJson).toArray.toList.map (fun j => milliTrunc (jsonToMilli j)) = l
  rw [List.toList_toArray, List.map_map]
  refine (List.map_congr_left (fun n _ => ?_)).trans (List.map_id l)
  exact int_roundtrip n

theorem members_roundtrip (l : List (String × String)) :
    jsonToMembers (.arr (l.map (fun (a, b) => Json.arr #[.str a, .str b])).toArray) = l := by
  show (l.map (fun (a, b) => Json.arr #[.str a, .str b])).toArray.toList.map _ = l
  rw [List.toList_toArray, List.map_map]
  exact (List.map_congr_left (fun _ _ => rfl)).trans (List.map_id l)

theorem ifaceList_form (j : Json) : ∃ v, coerce .ifaceList j = .jl v := by
  cases j <;> exact ⟨_, rfl⟩

/-- a value that came out of coercion survives export and import -/
theorem coerce_valJson_coerce (t : DataType) (j : Json) :
    coerce t (valJson (coerce t j)) = coerce t j := by
  cases t with
  | str => rfl
  | strLarge => rfl
  | json => rfl
  | customVar => rfl
  | int =>
    show Val.i (checkInt8 (milliTrunc (jsonToMilli (intJson (checkInt8 (milliTrunc (jsonToMilli j))))))) = _
    rw [int_roundtrip, checkInt8_idem]; rfl
  | int64 =>
    show Val.i (milliTrunc (jsonToMilli (intJson (milliTrunc (jsonToMilli j))))) = _
    rw [int_roundtrip]; rfl
  | float =>
    show Val.f (jsonNumMilli ⟨jsonToMilli j, 3⟩) = _
    rw [jsonNumMilli_milli]; rfl
  | strList =>
    show Val.sl (jsonToStrList (.arr ((jsonToStrList j).map Json.str).toArray)) = _
    rw [strList_roundtrip]; rfl
  | int64List =>
    show Val.il (jsonToIntList (.arr ((jsonToIntList j).map intJson).toArray)) = _
    rw [intList_roundtrip]; rfl
  | svcMemberList =>
    show Val.ml (jsonToMembers (.arr ((jsonToMembers j).map
      (fun (a, b) => Json.arr #[.str a, .str b])).toArray)) = _
    rw [members_roundtrip]; rfl
  | ifaceList =>
    obtain ⟨v, hv⟩ := ifaceList_form j
    rw [hv]
    show Val.jl v.toArray.toList = _
    rw [List.toList_toArray]

/-- the exported cells of a cached row (`valJson` of every cell) -/
def exported (r : Row) : ReplyRow := r.cells.map (fun p => (p.1, valJson p.2))

theorem coerceRow_exported (t : Table) (r : Row)
    (h : ∀ p ∈ r.cells, ∃ c, t.col? p.1 = some c ∧ c.storage = .loc ∧
      coerce c.dtype (valJson p.2) = p.2) :
    coerceRow t (exported r) = r := by
  rw [coerceRow_eq]
  obtain ⟨cells⟩ := r
  simp only [exported, Row.mk.injEq]
  simp only at h
  induction cells with
  | nil => rfl
  | cons p l ih =>
    obtain ⟨c, hc, hl, hv⟩ := h p (by simp)
    have hcell : cellOf t (p.1, valJson p.2) = some p := by
      unfold cellOf
      simp only [hc, hl, beq_self_eq_true, if_true, hv]
    rw [List.map_cons, List.filterMap_cons, hcell]
    simp only [List.cons.injEq, true_and]
    exact ih (fun q hq => h q (List.mem_cons_of_mem _ hq))

theorem coerceRow_cells_typed (t : Table) (r : ReplyRow) :
    ∀ p ∈ (coerceRow t r).cells, ∃ c j, t.col? p.1 = some c ∧ c.storage = .loc ∧
      p.2 = coerce c.dtype j := by
  intro p hp
  rw [coerceRow_eq] at hp
  obtain ⟨q, _, hq⟩ := List.mem_filterMap.mp hp
  unfold cellOf at hq
  split at hq
  · rename_i c hc
    by_cases hs : (c.storage == Storage.loc) = true
    · simp only [hs, if_true, Option.some.injEq] at hq
      subst hq
      exact ⟨c, q.2, hc, by simpa using hs, rfl⟩
    · simp [hs] at hq
  · cases hq

theorem localVal_lc_congr (t : Table) (r r' : Row) (c base : Column)
    (hs : hasSuffix c.name "_lc" = true) (hb : t.col? (trimSuffix c.name "_lc") = some base)
    (h : r.cell? base.name = r'.cell? base.name) : localVal t r c = localVal t r' c := by
  unfold localVal
  simp only [hs, if_true, hb, h]

theorem cell?_filter (r : Row) (keep : String → Bool) (n : String) (hk : keep n = true) :
    ({ cells := r.cells.filter (fun p => keep p.1) } : Row).cell? n = r.cell? n := by
  unfold Row.cell?
  simp only
  congr 1
  induction r.cells with
  | nil => rfl
  | cons p l ih =>
    by_cases hp : (p.1 == n) = true
    · have hpn : p.1 = n := by simpa using hp
      have hkp : keep p.1 = true := by rw [hpn]; exact hk
      rw [List.filter_cons_of_pos (by simpa using hkp),
        List.find?_cons_of_pos (p := fun x : String × Val => x.1 == n) hp,
        List.find?_cons_of_pos (p := fun x : String × Val => x.1 == n) hp]
    · rw [List.find?_cons_of_neg (l := l) (p := fun x : String × Val => x.1 == n) hp]
      by_cases hkp : keep p.1 = true
      · rw [List.filter_cons_of_pos (by simpa using hkp),
          List.find?_cons_of_neg (p := fun x : String × Val => x.1 == n) hp]
        exact ih
      · rw [List.filter_cons_of_neg (by simpa using hkp)]
        exact ih

end Lmd.SyncLemmas
