/-
  Lmd.Lemmas.SnapshotLemmas — helper lemmas for C19Snapshot (export / import of a whole cache):

  * `RowTyped` (the hypothesis of `C19.row_roundtrip` as a predicate), `restrictRow` (a row without
    the cells a predicate on names rejects) and `RowKept`;
  * one exported line read back (`line_roundtrip`) and injectivity of the exported form;
  * the rows `syncTable` / `syncBackend` store are typed, and keep only the delivered names.
-/
import Lmd.Lemmas.SyncLemmas

namespace Lmd.SnapshotLemmas
open Lean (Json JsonNumber)
open Lmd.SyncLemmas

/-! ## 1. typed rows, restriction to a set of names -/

/-- every cell of the row belongs to a locally stored column of the table and holds a value that
    came out of that column's coercion (the hypothesis of `C19.row_roundtrip`) -/
def RowTyped (t : Table) (r : Row) : Prop :=
  ∀ p ∈ r.cells, ∃ c j, t.col? p.1 = some c ∧ c.storage = .loc ∧ p.2 = coerce c.dtype j

/-- the row without the cells whose name `keep` rejects (order of the others unchanged) -/
def restrictRow (keep : String → Bool) (r : Row) : Row :=
  { cells := r.cells.filter (fun p => keep p.1) }

/-- every cell of the row has a name `keep` accepts -/
def RowKept (keep : String → Bool) (r : Row) : Prop := ∀ p ∈ r.cells, keep p.1 = true

theorem restrictRow_typed {t : Table} {r : Row} (keep : String → Bool) (h : RowTyped t r) :
    RowTyped t (restrictRow keep r) :=
  fun p hp => h p (List.mem_filter.mp hp).1

theorem restrictRow_kept (keep : String → Bool) (r : Row) : RowKept keep (restrictRow keep r) :=
  fun _ hp => (List.mem_filter.mp hp).2

theorem restrictRow_of_kept {keep : String → Bool} {r : Row} (h : RowKept keep r) :
    restrictRow keep r = r := by
  obtain ⟨cells⟩ := r
  unfold restrictRow
  simp only [Row.mk.injEq]
  exact List.filter_eq_self.mpr h

theorem restrictRow_idem (keep : String → Bool) (r : Row) :
    restrictRow keep (restrictRow keep r) = restrictRow keep r :=
  restrictRow_of_kept (restrictRow_kept keep r)

theorem restrictRow_cell? (keep : String → Bool) (r : Row) (n : String) (hk : keep n = true) :
    (restrictRow keep r).cell? n = r.cell? n := cell?_filter r keep n hk

theorem map_eq_self {α : Type} {f : α → α} {l : List α} (h : ∀ a ∈ l, f a = a) : l.map f = l :=
  (List.map_congr_left h).trans (List.map_id l)

/-! ## 2. one line of a table file -/

theorem exported_names (r : Row) : (exported r).map (·.1) = r.cells.map (·.1) := by
  unfold exported
  rw [List.map_map]
  rfl

/-- filtering the exported cells by the header leaves them alone when the header lists every name -/
theorem filter_exported_of_names (header : List String) (r : Row)
    (h : ∀ p ∈ r.cells, p.1 ∈ header) :
    (exported r).filter (fun p => header.contains p.1) = exported r := by
  apply List.filter_eq_self.mpr
  intro q hq
  unfold exported at hq
  obtain ⟨p, hp, rfl⟩ := List.mem_map.mp hq
  simpa using h p hp

/-- a typed row is reproduced by `coerceRow` of its exported cells (`C19.row_roundtrip`) -/
theorem typed_roundtrip {t : Table} {r : Row} (h : RowTyped t r) : coerceRow t (exported r) = r := by
  apply coerceRow_exported
  intro p hp
  obtain ⟨c, j, hc, hl, hv⟩ := h p hp
  exact ⟨c, hc, hl, by rw [hv]; exact coerce_valJson_coerce c.dtype j⟩

/-- one exported line read back through the header: the row restricted to the exported names -/
theorem line_roundtrip (t : Table) (keep : String → Bool) (header : List String) (r : Row)
    (ht : RowTyped t r) (hh : ∀ n, keep n = true → n ∈ header) :
    coerceRow t ((exported (restrictRow keep r)).filter (fun p => header.contains p.1)) =
      restrictRow keep r := by
  rw [filter_exported_of_names header _ (fun p hp => hh p.1 (restrictRow_kept keep r p hp))]
  exact typed_roundtrip (restrictRow_typed keep ht)

/-- the exported form of a typed row determines the row -/
theorem exported_inj {t : Table} {r r' : Row} (h : RowTyped t r) (h' : RowTyped t r')
    (he : exported r = exported r') : r = r' := by
  rw [← typed_roundtrip h, ← typed_roundtrip h', he]

/-- the exported form of the kept cells determines every kept cell of a typed row -/
theorem exported_restrict_cell? {t : Table} {r r' : Row} (keep : String → Bool)
    (h : RowTyped t r) (h' : RowTyped t r')
    (he : exported (restrictRow keep r) = exported (restrictRow keep r'))
    (n : String) (hk : keep n = true) : r.cell? n = r'.cell? n := by
  have := exported_inj (restrictRow_typed keep h) (restrictRow_typed keep h') he
  rw [← restrictRow_cell? keep r n hk, ← restrictRow_cell? keep r' n hk, this]

/-- all lines of one table file read back: every row restricted to the exported names, in order -/
theorem lines_roundtrip (t : Table) (keep : String → Bool) (header : List String) (rows : List Row)
    (ht : ∀ r ∈ rows, RowTyped t r) (hh : ∀ n, keep n = true → n ∈ header) :
    (rows.map (fun r => exported (restrictRow keep r))).map
        (fun line => coerceRow t (line.filter (fun p => header.contains p.1))) =
      rows.map (restrictRow keep) := by
  rw [List.map_map]
  apply List.map_congr_left
  intro r hr
  exact line_roundtrip t keep header r (ht r hr) hh

/-- writing a cell under a name that is not kept does not change the kept cells -/
theorem restrictRow_setCell_of_not_kept (keep : String → Bool) (r : Row) (n : String) (v : Val)
    (hn : keep n = false) : restrictRow keep (r.setCell n v) = restrictRow keep r := by
  unfold restrictRow Row.setCell
  simp only [Row.mk.injEq, List.filter_append, List.filter_filter]
  have h2 : List.filter (fun p : String × Val => keep p.1) [(n, v)] = [] := by
    simp [hn]
  rw [h2, List.append_nil]
  apply List.filter_congr
  intro p _
  by_cases hk : keep p.1 = true
  · have : p.1 ≠ n := fun e => by rw [e, hn] at hk; cases hk
    simp [hk, this]
  · simp [hk]

/-- equal lists of exported lines: same number of rows, and row by row the same kept cells -/
theorem lines_determine_cells {t : Table} (keep : String → Bool) {rows rows' : List Row}
    (ht : ∀ r ∈ rows, RowTyped t r) (ht' : ∀ r ∈ rows', RowTyped t r)
    (he : rows.map (fun r => exported (restrictRow keep r)) =
      rows'.map (fun r => exported (restrictRow keep r))) :
    rows.length = rows'.length ∧
      ∀ (i : Nat) (r r' : Row), rows[i]? = some r → rows'[i]? = some r' →
        ∀ n, keep n = true → r.cell? n = r'.cell? n := by
  refine ⟨by simpa using congrArg List.length he, ?_⟩
  intro i r r' hr hr' n hk
  have h1 : (rows.map (fun r => exported (restrictRow keep r)))[i]? = some (exported (restrictRow keep r)) := by
    rw [List.getElem?_map, hr]; rfl
  have h2 : (rows'.map (fun r => exported (restrictRow keep r)))[i]? = some (exported (restrictRow keep r')) := by
    rw [List.getElem?_map, hr']; rfl
  rw [he, h2] at h1
  exact exported_restrict_cell? keep (ht r (List.mem_of_getElem? hr)) (ht' r' (List.mem_of_getElem? hr'))
    (Option.some.inj h1).symm n hk

/-! ## 3. rows stored by the synchronisation -/

theorem coerceRow_typed (t : Table) (reply : ReplyRow) : RowTyped t (coerceRow t reply) :=
  coerceRow_cells_typed t reply

/-- `coerceRow` keeps only names the reply delivered for locally stored columns -/
theorem coerceRow_kept (t : Table) (keep : String → Bool) (reply : ReplyRow)
    (h : ∀ q ∈ reply, ∀ c, t.col? q.1 = some c → c.storage = .loc → keep q.1 = true) :
    RowKept keep (coerceRow t reply) := by
  intro p hp
  rw [coerceRow_eq] at hp
  obtain ⟨q, hq, hcell⟩ := List.mem_filterMap.mp hp
  have hname := cellOf_name hcell
  rw [hname]
  unfold cellOf at hcell
  split at hcell
  · rename_i c hc
    by_cases hs : (c.storage == Storage.loc) = true
    · exact h q hq c hc (by simpa using hs)
    · simp [hs] at hcell
  · cases hcell

theorem syncTable_typed (t : Table) (reply : List ReplyRow) : ∀ r ∈ syncTable t reply, RowTyped t r := by
  intro r hr
  obtain ⟨rr, _, rfl⟩ := List.mem_map.mp ((syncTable_perm_rows t reply).mem_iff.mp hr)
  exact coerceRow_typed t rr

theorem syncTable_kept (t : Table) (keep : String → Bool) (reply : List ReplyRow)
    (h : ∀ rr ∈ reply, ∀ q ∈ rr, ∀ c, t.col? q.1 = some c → c.storage = .loc → keep q.1 = true) :
    ∀ r ∈ syncTable t reply, RowKept keep r := by
  intro r hr
  obtain ⟨rr, hrr, rfl⟩ := List.mem_map.mp ((syncTable_perm_rows t reply).mem_iff.mp hr)
  exact coerceRow_kept t keep rr (h rr hrr)

/-- an id list written by `buildIdLists` keeps the row typed, when the table stores that column
    as an integer list -/
theorem setCell_typed {t : Table} {r : Row} (n : String) (l : List Int) (h : RowTyped t r)
    (hn : ∃ c, t.col? n = some c ∧ c.storage = .loc ∧ c.dtype = .int64List) :
    RowTyped t (r.setCell n (.il l)) := by
  intro p hp
  unfold Row.setCell at hp
  rcases List.mem_append.mp hp with hp | hp
  · exact h p (List.mem_filter.mp hp).1
  · obtain ⟨c, hc, hl, hd⟩ := hn
    have : p = (n, .il l) := by simpa using hp
    subst this
    refine ⟨c, .arr (l.map intJson).toArray, hc, hl, ?_⟩
    rw [hd]
    show Val.il l = Val.il (jsonToIntList (.arr (l.map intJson).toArray))
    rw [intList_roundtrip]

theorem setCell_kept {keep : String → Bool} {r : Row} (n : String) (v : Val) (h : RowKept keep r)
    (hn : keep n = true) : RowKept keep (r.setCell n v) := by
  intro p hp
  unfold Row.setCell at hp
  rcases List.mem_append.mp hp with hp | hp
  · exact h p (List.mem_filter.mp hp).1
  · have : p = (n, v) := by simpa using hp
    subst this
    exact hn

/-- the table description the synchronisation and the query evaluation use for a table name -/
def tableOf (s : Schema) (n : String) : Table := (s.table? n).getD { name := n, cols := [] }

/-- the tables right after `syncTable`, before the id lists are built -/
def syncedTables (s : Schema) (tables : List (String × List ReplyRow)) : List (String × List Row) :=
  tables.map fun p => (p.1, syncTable (tableOf s p.1) p.2)

/-- the first synced table of a name (`[]` if there is none) -/
def syncedGet (s : Schema) (tables : List (String × List ReplyRow)) (n : String) : List Row :=
  match (syncedTables s tables).find? (·.1 == n) with
  | some (_, rs) => rs
  | none => []

theorem mem_syncedGet {s : Schema} {tables : List (String × List ReplyRow)} {n : String} {r : Row}
    (h : r ∈ syncedGet s tables n) :
    ∃ reply, (n, reply) ∈ tables ∧ r ∈ syncTable (tableOf s n) reply := by
  unfold syncedGet at h
  split at h
  · rename_i m rs hf
    have hm : m = n := by simpa using List.find?_some hf
    have hmem := List.mem_of_find?_eq_some hf
    unfold syncedTables at hmem
    obtain ⟨p, hp, hpe⟩ := List.mem_map.mp hmem
    have h1 : p.1 = m := congrArg Prod.fst hpe
    have h2 : syncTable (tableOf s p.1) p.2 = rs := congrArg Prod.snd hpe
    refine ⟨p.2, ?_, ?_⟩
    · rw [← hm, ← h1]; exact hp
    · rw [← hm, ← h1, h2]; exact h
  · cases h

/-- the hosts rows after both id lists were built -/
def syncedHosts (s : Schema) (tables : List (String × List ReplyRow)) : List Row :=
  (buildIdLists "downtimes" (syncedGet s tables "downtimes")
    (buildIdLists "comments" (syncedGet s tables "comments") (syncedGet s tables "hosts")
      (syncedGet s tables "services")).1
    (buildIdLists "comments" (syncedGet s tables "comments") (syncedGet s tables "hosts")
      (syncedGet s tables "services")).2).1

/-- the services rows after both id lists were built -/
def syncedServices (s : Schema) (tables : List (String × List ReplyRow)) : List Row :=
  (buildIdLists "downtimes" (syncedGet s tables "downtimes")
    (buildIdLists "comments" (syncedGet s tables "comments") (syncedGet s tables "hosts")
      (syncedGet s tables "services")).1
    (buildIdLists "comments" (syncedGet s tables "comments") (syncedGet s tables "hosts")
      (syncedGet s tables "services")).2).2

theorem syncBackend_eq (s : Schema) (tables : List (String × List ReplyRow)) :
    syncBackend s tables =
      (syncedTables s tables).map fun p =>
        if p.1 == "hosts" then (p.1, syncedHosts s tables)
        else if p.1 == "services" then (p.1, syncedServices s tables) else (p.1, p.2) := rfl

theorem mem_syncedHosts {s : Schema} {tables : List (String × List ReplyRow)} {r : Row}
    (h : r ∈ syncedHosts s tables) :
    ∃ r0 ∈ syncedGet s tables "hosts", ∃ l1 l2,
      r = (r0.setCell "comments" (.il l1)).setCell "downtimes" (.il l2) := by
  unfold syncedHosts at h
  rw [buildIdLists_fst, buildIdLists_fst, List.map_map] at h
  obtain ⟨r0, hr0, rfl⟩ := List.mem_map.mp h
  exact ⟨r0, hr0, _, _, rfl⟩

theorem mem_syncedServices {s : Schema} {tables : List (String × List ReplyRow)} {r : Row}
    (h : r ∈ syncedServices s tables) :
    ∃ r0 ∈ syncedGet s tables "services", ∃ l1 l2,
      r = (r0.setCell "comments" (.il l1)).setCell "downtimes" (.il l2) := by
  unfold syncedServices at h
  rw [buildIdLists_snd, buildIdLists_snd, List.map_map] at h
  obtain ⟨r0, hr0, rfl⟩ := List.mem_map.mp h
  exact ⟨r0, hr0, _, _, rfl⟩

/-- every row the initial synchronisation of a backend stores is a row of `syncTable` for a reply
    of that table name, for hosts and services with the two id lists set afterwards -/
theorem syncBackend_row_cases {s : Schema} {tables : List (String × List ReplyRow)} {n : String}
    {rs : List Row} {r : Row} (h : (n, rs) ∈ syncBackend s tables) (hr : r ∈ rs) :
    ∃ reply, (n, reply) ∈ tables ∧ ∃ r0 ∈ syncTable (tableOf s n) reply,
      r = r0 ∨ ((n = "hosts" ∨ n = "services") ∧ ∃ l1 l2,
        r = (r0.setCell "comments" (.il l1)).setCell "downtimes" (.il l2)) := by
  rw [syncBackend_eq] at h
  obtain ⟨p, hp, hpe⟩ := List.mem_map.mp h
  by_cases hh : (p.1 == "hosts") = true
  · rw [if_pos hh] at hpe
    have h1 : p.1 = n := congrArg Prod.fst hpe
    have h2 : syncedHosts s tables = rs := congrArg Prod.snd hpe
    have hn : n = "hosts" := by rw [← h1]; simpa using hh
    rw [← h2] at hr
    obtain ⟨r0, hr0, l1, l2, rfl⟩ := mem_syncedHosts hr
    obtain ⟨reply, hrep, hmem⟩ := mem_syncedGet hr0
    exact ⟨reply, by rw [hn]; exact hrep, r0, by rw [hn]; exact hmem, Or.inr ⟨Or.inl hn, l1, l2, rfl⟩⟩
  · rw [if_neg hh] at hpe
    by_cases hs : (p.1 == "services") = true
    · rw [if_pos hs] at hpe
      have h1 : p.1 = n := congrArg Prod.fst hpe
      have h2 : syncedServices s tables = rs := congrArg Prod.snd hpe
      have hn : n = "services" := by rw [← h1]; simpa using hs
      rw [← h2] at hr
      obtain ⟨r0, hr0, l1, l2, rfl⟩ := mem_syncedServices hr
      obtain ⟨reply, hrep, hmem⟩ := mem_syncedGet hr0
      exact ⟨reply, by rw [hn]; exact hrep, r0, by rw [hn]; exact hmem, Or.inr ⟨Or.inr hn, l1, l2, rfl⟩⟩
    · rw [if_neg hs] at hpe
      have h1 : p.1 = n := congrArg Prod.fst hpe
      have h2 : p.2 = rs := congrArg Prod.snd hpe
      unfold syncedTables at hp
      obtain ⟨q, hq, hqe⟩ := List.mem_map.mp hp
      have h3 : q.1 = p.1 := congrArg Prod.fst hqe
      have h4 : syncTable (tableOf s q.1) q.2 = p.2 := congrArg Prod.snd hqe
      refine ⟨q.2, ?_, r, ?_, Or.inl rfl⟩
      · rw [← h1, ← h3]; exact hq
      · rw [← h1, ← h3, h4, h2]; exact hr

/-- the names of the table entries the synchronisation stores are those of the replies, in order -/
theorem syncBackend_names (s : Schema) (tables : List (String × List ReplyRow)) :
    (syncBackend s tables).map (·.1) = tables.map (·.1) := by
  rw [syncBackend_eq]
  unfold syncedTables
  rw [List.map_map, List.map_map]
  apply List.map_congr_left
  intro p _
  simp only [Function.comp]
  split
  · rfl
  · split <;> rfl

/-- every row the initial synchronisation of a backend stores is typed and holds only cells whose
    names `keep` accepts, when the replies deliver only such names for locally stored columns and
    the hosts and services tables store the two id lists as integer lists under accepted names -/
theorem syncBackend_rows_typed_kept (s : Schema) (replies : List (String × List ReplyRow))
    (keep : String → String → Bool)
    (hrep : ∀ e ∈ replies, ∀ rr ∈ e.2, ∀ q ∈ rr, ∀ c, (tableOf s e.1).col? q.1 = some c →
      c.storage = .loc → keep e.1 q.1 = true)
    (hcols : ∀ n, n = "hosts" ∨ n = "services" → ∀ m, m = "comments" ∨ m = "downtimes" →
      (∃ c, (tableOf s n).col? m = some c ∧ c.storage = .loc ∧ c.dtype = .int64List) ∧
        keep n m = true) :
    ∀ e ∈ syncBackend s replies, ∀ r ∈ e.2, RowTyped (tableOf s e.1) r ∧ RowKept (keep e.1) r := by
  intro e he r hr
  obtain ⟨reply, hrep', r0, hr0, hcase⟩ := syncBackend_row_cases (n := e.1) (rs := e.2) he hr
  have ht0 := syncTable_typed _ reply r0 hr0
  have hk0 := syncTable_kept _ (keep e.1) reply (fun rr hrr => hrep (e.1, reply) hrep' rr hrr) r0 hr0
  rcases hcase with rfl | ⟨hn, l1, l2, rfl⟩
  · exact ⟨ht0, hk0⟩
  · obtain ⟨h1, k1⟩ := hcols e.1 hn "comments" (Or.inl rfl)
    obtain ⟨h2, k2⟩ := hcols e.1 hn "downtimes" (Or.inr rfl)
    exact ⟨setCell_typed _ _ (setCell_typed _ _ ht0 h1) h2,
      setCell_kept _ _ (setCell_kept _ _ hk0 k1) k2⟩

/-- the table names the synchronisation stores are names of replies -/
theorem syncBackend_name_mem {s : Schema} {replies : List (String × List ReplyRow)}
    {e : String × List Row} (he : e ∈ syncBackend s replies) : ∃ e' ∈ replies, e'.1 = e.1 := by
  have : e.1 ∈ replies.map (·.1) := by
    rw [← syncBackend_names s replies]; exact List.mem_map.mpr ⟨e, he, rfl⟩
  obtain ⟨e', he', hn⟩ := List.mem_map.mp this
  exact ⟨e', he', hn⟩

end Lmd.SnapshotLemmas
