/-
  Lmd.Lemmas.PassthroughWholeLemmas — helper lemmas for the whole-answer statements of property C16
  (`Lmd.Props.C16Whole`): the spliced rows as a function of the backend list, the sorted rows before the
  cut, the Stats values of a request without group-by columns as the reply rows themselves, sums over the
  backends, and the independence of the printed Stats values from the order of the reply rows.
-/
import Lmd.Lemmas.PassthroughLemmas

namespace Lmd.PTW
open Lmd Lmd.PT
open Lean (Json)

/-! ## 1. the rows of the answering backends -/

/-- the reply rows of one backend with its LMD-side values spliced in, in the backend's order -/
def peerRows (t : Table) (req : Request) (p : PTPeer) : List (List Json) :=
  (p.reply.getD []).map (spliceRow p (ptPlan t req).virtuals)

/-- all rows of the answer: backend after backend (those that are reachable and answered), each backend's rows
    in the order it sent them -/
def answerRows (t : Table) (req : Request) (peers : List PTPeer) : List (List Json) :=
  (peers.filter (fun p => p.online && p.reply.isSome)).flatMap (peerRows t req)

theorem spliced_eq_answerRows (t : Table) (req : Request) (peers : List PTPeer) :
    spliced t req peers = answerRows t req peers := by
  unfold spliced answerRows ptAnswering
  induction peers with
  | nil => rfl
  | cons p ps ih =>
    rw [List.filterMap_cons, List.filter_cons]
    cases ho : p.online <;> cases hr : p.reply <;>
      simp [ih, peerRows, hr]

theorem sublist_flatMap_of_mem {α β : Type} (f : α → List β) {l : List α} {a : α} (h : a ∈ l) :
    (f a).Sublist (l.flatMap f) := by
  induction l with
  | nil => cases h
  | cons x xs ih =>
    rw [List.flatMap_cons]
    rcases List.mem_cons.1 h with rfl | h'
    · exact List.sublist_append_left _ _
    · exact (ih h').trans (List.sublist_append_right _ _)

theorem mem_answerRows (t : Table) (req : Request) (peers : List PTPeer) (r : List Json) :
    r ∈ answerRows t req peers ↔
      ∃ p ∈ peers, p.online = true ∧ ∃ rows, p.reply = some rows ∧
        ∃ brow ∈ rows, r = spliceRow p (ptPlan t req).virtuals brow := by
  simp only [answerRows, List.mem_flatMap, List.mem_filter, peerRows, List.mem_map, Bool.and_eq_true]
  constructor
  · rintro ⟨p, ⟨hp, ho, hr⟩, brow, hb, rfl⟩
    cases hrep : p.reply with
    | none => rw [hrep] at hr; cases hr
    | some rows =>
      rw [hrep] at hb
      exact ⟨p, hp, ho, rows, hrep, brow, hb, rfl⟩
  · rintro ⟨p, hp, ho, rows, hrep, brow, hb, rfl⟩
    refine ⟨p, ⟨hp, ho, by simp [hrep]⟩, brow, ?_, rfl⟩
    rw [hrep]
    exact hb

/-! ## 2. the sorted rows before the cut -/

/-- the spliced rows in the order of the answer, with the fetched sort columns still in place -/
def fullSorted (t : Table) (req : Request) (peers : List PTPeer) : List (List Json) :=
  (sortedKeyed t req peers).map (·.2)

theorem sortedKeyed_key (t : Table) (req : Request) (peers : List PTPeer) :
    ∀ kr ∈ sortedKeyed t req peers, kr.1 = ptKeys req (ptPlan t req) kr.2 := by
  intro kr hkr
  have := (sortedKeyed_perm t req peers).mem_iff.1 hkr
  simp only [keyed, List.mem_map] at this
  obtain ⟨r, _, rfl⟩ := this
  rfl

theorem fullSorted_perm (t : Table) (req : Request) (peers : List PTPeer) :
    (fullSorted t req peers).Perm (spliced t req peers) := by
  have := (sortedKeyed_perm t req peers).map (·.2)
  unfold fullSorted
  refine this.trans ?_
  simp [keyed, Function.comp_def]

theorem fullSorted_keys (t : Table) (req : Request) (peers : List PTPeer) :
    (sortedKeyed t req peers).map (·.1) = (fullSorted t req peers).map (ptKeys req (ptPlan t req)) := by
  unfold fullSorted
  rw [List.map_map]
  apply List.map_congr_left
  intro kr hkr
  exact sortedKeyed_key t req peers kr hkr

theorem fullSorted_rows (t : Table) (req : Request) (peers : List PTPeer) :
    (cutKeyed t req peers).map (·.2) = (fullSorted t req peers).map (cutRow t req) := by
  simp [cutKeyed, fullSorted, Function.comp_def]

theorem fullSorted_pairwise (t : Table) (req : Request) (peers : List PTPeer) :
    (fullSorted t req peers).Pairwise
      (fun a b => ptLe (descsOf req) (ptKeys req (ptPlan t req) a) (ptKeys req (ptPlan t req) b) = true) := by
  have h := sortedKeyed_pairwise t req peers
  unfold fullSorted
  rw [List.pairwise_map]
  refine List.Pairwise.imp_of_mem ?_ h
  intro a b ha hb hab
  rw [← sortedKeyed_key t req peers a ha, ← sortedKeyed_key t req peers b hb]
  exact hab

theorem fullSorted_of_sort_nil (t : Table) (req : Request) (peers : List PTPeer) (h : req.sort = []) :
    fullSorted t req peers = spliced t req peers := by
  simp [fullSorted, sortedKeyed, keyed, h, Function.comp_def]

/-! ## 3. Stats without group-by columns -/

theorem requestColumns_stats_nil (t : Table) (req : Request) (hc : req.columns = []) (hs : req.stats ≠ []) :
    requestColumns t req = [] := by
  have : req.stats.isEmpty = false := by simpa using hs
  simp [requestColumns, hc, this]

/-- nothing is spliced into the reply rows of a Stats request without columns -/
theorem virtuals_stats_nil (t : Table) (req : Request) (hc : req.columns = []) (hs : req.stats ≠ []) :
    (ptPlan t req).virtuals = [] := by
  rw [(ptPlan_planOf t req).virtuals, allCols_of_effSort_nil t req (effSort_of_stats_ne_nil req hs),
    requestColumns_stats_nil t req hc hs]
  rfl

/-- the reply rows of a backend (nothing if it did not answer) -/
def rawRows (p : PTPeer) : List (List Json) := p.reply.getD []

theorem spliced_stats_nil (t : Table) (req : Request) (peers : List PTPeer) (hc : req.columns = [])
    (hs : req.stats ≠ []) :
    spliced t req peers = (peers.filter (fun p => p.online && p.reply.isSome)).flatMap rawRows := by
  rw [spliced_eq_answerRows]
  unfold answerRows
  congr 1
  funext p
  simp only [peerRows, virtuals_stats_nil t req hc hs, rawRows]
  have : spliceRow p [] = id := by funext r; rfl
  rw [this, List.map_id]

/-- the Stats values that are added up for a request without columns: the reply rows of the right width -/
theorem valsOfKey_zero (kinds : List AccKind) (rows : List (List Json)) :
    valsOfKey kinds 0 [] rows = rows.filter (fun r => r.length == kinds.length) := by
  unfold valsOfKey
  have h1 : (fun r : List Json => rowKey 0 r == ([] : List String)) = fun _ => true := by
    funext r; simp [rowKey]
  have h2 : (rowVals 0 : List Json → List Json) = id := by funext r; simp [rowVals]
  have h3 : goodRow kinds 0 = fun r => r.length == kinds.length := by
    funext r; simp [goodRow]
  rw [h1, h2, h3, List.map_id]
  simp

/-- the reply rows of one backend that count: those with one cell per Stats header -/
def goodRaw (n : Nat) (p : PTPeer) : List (List Json) := (rawRows p).filter (fun r => r.length == n)

theorem filter_flatMap_raw (n : Nat) (l : List PTPeer) :
    (l.flatMap rawRows).filter (fun r => r.length == n) = l.flatMap (goodRaw n) := by
  rw [List.filter_flatMap]
  rfl

/-- the Stats values of a request without columns: the well-formed reply rows of the answering backends -/
theorem valsOfKey_stats_nil (t : Table) (req : Request) (peers : List PTPeer) (hc : req.columns = [])
    (hs : req.stats ≠ []) :
    valsOfKey (req.stats.map StatsEntry.accKind) (requestColumns t req).length [] (spliced t req peers) =
      (peers.filter (fun p => p.online && p.reply.isSome)).flatMap (goodRaw req.stats.length) := by
  rw [requestColumns_stats_nil t req hc hs, spliced_stats_nil t req peers hc hs]
  show valsOfKey _ 0 [] _ = _
  rw [valsOfKey_zero, filter_flatMap_raw, List.length_map]

theorem foldl_ptApply_length (kinds : List AccKind) (vals : List (List Json)) (accs : List Acc)
    (ha : accs.length = kinds.length) (hv : ∀ v ∈ vals, v.length = kinds.length) :
    (vals.foldl (ptApply kinds) accs).length = kinds.length := by
  induction vals generalizing accs with
  | nil => exact ha
  | cons v vs ih =>
    simp only [List.foldl_cons]
    exact ih _ (ptApply_length kinds accs v ha (hv v List.mem_cons_self))
      (fun w hw => hv w (List.mem_cons_of_mem _ hw))

/-- the number one backend contributes to a counter: the sum of the (truncated, non-negative) numbers in column
    `i` of its well-formed reply rows -/
def backendCounter (n i : Nat) (p : PTPeer) : Nat :=
  ((goodRaw n p).map fun r => Int.toNat (milliTrunc (jsonToMilli (r.getD i Json.null)))).sum

theorem sum_map_flatMap {α β : Type} (f : α → List β) (g : β → Nat) (l : List α) :
    ((l.flatMap f).map g).sum = (l.map fun a => ((f a).map g).sum).sum := by
  induction l with
  | nil => rfl
  | cons a t ih =>
    rw [List.flatMap_cons, List.map_append, List.sum_append_nat, ih, List.map_cons, List.sum_cons]

/-! ## 4. the printed values do not depend on the order of the reply rows -/

theorem foldl_add_perm {l₁ l₂ : List Int} (h : l₁.Perm l₂) (a : Int) :
    l₁.foldl (· + ·) a = l₂.foldl (· + ·) a :=
  h.foldl_eq' (fun x _ y _ z => by omega) a

theorem foldl_min_perm {l₁ l₂ : List Int} (h : l₁.Perm l₂) (a : Int) : l₁.foldl min a = l₂.foldl min a :=
  h.foldl_eq' (fun x _ y _ z => by omega) a

theorem foldl_max_perm {l₁ l₂ : List Int} (h : l₁.Perm l₂) (a : Int) : l₁.foldl max a = l₂.foldl max a :=
  h.foldl_eq' (fun x _ y _ z => by omega) a

theorem foldl_min_le (l : List Int) (a : Int) : l.foldl min a ≤ a ∧ ∀ x ∈ l, l.foldl min a ≤ x := by
  induction l generalizing a with
  | nil => exact ⟨Int.le_refl _, fun x hx => nomatch hx⟩
  | cons y t ih =>
    simp only [List.foldl_cons]
    obtain ⟨h1, h2⟩ := ih (min a y)
    have ha : min a y ≤ a := Int.min_le_left _ _
    have hy : min a y ≤ y := Int.min_le_right _ _
    refine ⟨by omega, ?_⟩
    intro x hx
    rcases List.mem_cons.1 hx with rfl | hx'
    · omega
    · exact h2 x hx'

theorem foldl_min_mem (l : List Int) (a : Int) : l.foldl min a = a ∨ l.foldl min a ∈ l := by
  induction l generalizing a with
  | nil => exact Or.inl rfl
  | cons y t ih =>
    simp only [List.foldl_cons]
    rcases ih (min a y) with h | h
    · rw [h]
      rcases Int.min_def a y ▸ (by split <;> simp : (if a ≤ y then a else y) = a ∨ (if a ≤ y then a else y) = y) with h' | h'
      · exact Or.inl h'
      · exact Or.inr (by rw [h']; exact List.mem_cons_self)
    · exact Or.inr (List.mem_cons_of_mem _ h)

theorem foldl_max_ge (l : List Int) (a : Int) : a ≤ l.foldl max a ∧ ∀ x ∈ l, x ≤ l.foldl max a := by
  induction l generalizing a with
  | nil => exact ⟨Int.le_refl _, fun x hx => nomatch hx⟩
  | cons y t ih =>
    simp only [List.foldl_cons]
    obtain ⟨h1, h2⟩ := ih (max a y)
    have ha : a ≤ max a y := Int.le_max_left _ _
    have hy : y ≤ max a y := Int.le_max_right _ _
    refine ⟨by omega, ?_⟩
    intro x hx
    rcases List.mem_cons.1 hx with rfl | hx'
    · omega
    · exact h2 x hx'

theorem foldl_max_mem (l : List Int) (a : Int) : l.foldl max a = a ∨ l.foldl max a ∈ l := by
  induction l generalizing a with
  | nil => exact Or.inl rfl
  | cons y t ih =>
    simp only [List.foldl_cons]
    rcases ih (max a y) with h | h
    · rw [h]
      rcases Int.max_def a y ▸ (by split <;> simp : (if a ≤ y then y else a) = a ∨ (if a ≤ y then y else a) = y) with h' | h'
      · exact Or.inl h'
      · exact Or.inr (by rw [h']; exact List.mem_cons_self)
    · exact Or.inr (List.mem_cons_of_mem _ h)

/-- the minimum of a list, started from any of its elements -/
theorem foldl_min_start (l : List Int) (a b : Int) (ha : a ∈ l) (hb : b ∈ l) : l.foldl min a = l.foldl min b := by
  have h1 := foldl_min_le l a
  have h2 := foldl_min_le l b
  have m1 : l.foldl min a ∈ l := by
    rcases foldl_min_mem l a with h | h
    · rw [h]; exact ha
    · exact h
  have m2 : l.foldl min b ∈ l := by
    rcases foldl_min_mem l b with h | h
    · rw [h]; exact hb
    · exact h
  have := h1.2 _ m2
  have := h2.2 _ m1
  omega

theorem foldl_max_start (l : List Int) (a b : Int) (ha : a ∈ l) (hb : b ∈ l) : l.foldl max a = l.foldl max b := by
  have h1 := foldl_max_ge l a
  have h2 := foldl_max_ge l b
  have m1 : l.foldl max a ∈ l := by
    rcases foldl_max_mem l a with h | h
    · rw [h]; exact ha
    · exact h
  have m2 : l.foldl max b ∈ l := by
    rcases foldl_max_mem l b with h | h
    · rw [h]; exact hb
    · exact h
  have := h1.2 _ m2
  have := h2.2 _ m1
  omega

theorem foldl_min_cons_self (v : Int) (vs : List Int) : vs.foldl min v = (v :: vs).foldl min v := by
  simp only [List.foldl_cons, Int.min_self]

theorem foldl_max_cons_self (v : Int) (vs : List Int) : vs.foldl max v = (v :: vs).foldl max v := by
  simp only [List.foldl_cons, Int.max_self]

/-- the arithmetic specification of a Stats slot does not depend on the order of the values -/
theorem specFinal_perm (k : AccKind) {l₁ l₂ : List Int} (h : l₁.Perm l₂) : specFinal k l₁ = specFinal k l₂ := by
  cases l₁ with
  | nil =>
    have : l₂ = [] := h.nil_eq.symm
    subst this
    rfl
  | cons v vs =>
    cases l₂ with
    | nil => exact absurd h.symm.nil_eq (by simp)
    | cons w ws =>
      have hlen := h.length_eq
      cases k with
      | counter => simp only [specFinal, hlen]
      | sum => simp only [specFinal, foldl_add_perm h 0]
      | avg => simp only [specFinal, foldl_add_perm h 0, hlen]
      | min =>
        simp only [specFinal]
        rw [foldl_min_cons_self v vs, foldl_min_cons_self w ws, foldl_min_perm h v]
        congr 1
        exact foldl_min_start _ v w (h.subset List.mem_cons_self) List.mem_cons_self
      | max =>
        simp only [specFinal]
        rw [foldl_max_cons_self v vs, foldl_max_cons_self w ws, foldl_max_perm h v]
        congr 1
        exact foldl_max_start _ v w (h.subset List.mem_cons_self) List.mem_cons_self

/-- the printed value of a slot does not depend on the order in which the reply rows arrive -/
theorem slotFinal_perm (k : AccKind) {c₁ c₂ : List Json} (h : c₁.Perm c₂) : slotFinal k c₁ = slotFinal k c₂ := by
  cases k with
  | counter =>
    simp only [slotFinal]
    rw [(h.map _).sum_nat]
  | sum => exact specFinal_perm .sum (h.map jsonToMilli)
  | avg => exact specFinal_perm .avg (h.map jsonToMilli)
  | min => exact specFinal_perm .min (h.map jsonToMilli)
  | max => exact specFinal_perm .max (h.map jsonToMilli)

end Lmd.PTW
