/-
  Lmd.Lemmas.BodyLemmas — the body of an answer, assembled from the model's results.

  The model (`Lmd.Query`, `Lmd.Stats`, `Lmd.Render`) yields the rows of an answer (`dataQuery`,
  `hitJson`), the total and the failed backends; the driver compares exactly these pieces with the
  daemon.  This file puts the pieces together the way `Response.JSON`, `Response.WrappedJSON`,
  `WriteColumnsResponse`, `SendColumnsHeader`, `CalculateFinalStats` and `Response.Buffer` of
  pkg/lmd/response.go do.  The assembly functions below are definitions of the proof layer (they
  use only model functions; they add the brackets, the header row and the object keys), and the
  lemmas about them are what `Lmd.Props.C10Body` states.
-/
import Lmd.Lemmas.Frame
import Lmd.Lemmas.Sort
import Lmd.Lemmas.Select
import Lmd.Lemmas.DistStatsLemmas
import Lmd.Stats
import Lmd.Render
import Std.Data.TreeMap.Raw.Lemmas

namespace Lmd.Body
open Lmd Lmd.Frame Lmd.Sort
open Lean (Json)

/-! ## shapes of JSON values -/

/-- a JSON array with exactly `n` elements -/
def IsRow (n : Nat) (j : Json) : Prop := ∃ a : Array Json, j = .arr a ∧ a.size = n

/-- a JSON array all of whose elements satisfy `p` -/
def ArrOf (p : Json → Prop) (j : Json) : Prop := ∃ a : Array Json, j = .arr a ∧ ∀ x ∈ a.toList, p x

def IsStr (j : Json) : Prop := ∃ s, j = .str s
def IsNum (j : Json) : Prop := ∃ n, j = .num n
def IsObj (j : Json) : Prop := ∃ kvs, j = .obj kvs

/-- a natural number as a JSON number -/
def natJson (n : Nat) : Json := .num ⟨(n : Int), 0⟩

/-! ## assembling a data answer -/

/-- `Response.SendColumnsHeader` -/
def sendColumnsHeader (req : Request) : Bool :=
  req.stats.isEmpty && (req.colHeaders || req.columns.isEmpty)

/-- `Response.WriteColumnsResponse`: the names of the header row — the names as the client wrote
    them in `Columns:`, the column's own name where there is no such entry, then `stats_<i>` -/
def headerNames (t : Table) (req : Request) : List String :=
  ((requestColumns t req).zipIdx.map fun (c, k) => (req.columns[k]?).getD c.name)
    ++ (List.range req.stats.length).map (fun i => "stats_" ++ toString (i + 1))

/-- the header row as a JSON value -/
def headerRow (t : Table) (req : Request) : Json := .arr ((headerNames t req).map Json.str).toArray

/-- the data rows of an answer: one `hitJson` per hit, over the response columns (this is what the
    driver hands to the comparison as `rowsJ`) -/
def dataRows (s : Schema) (ds : Dataset) (t : Table) (req : Request) (hits : List Hit) : List Json :=
  hits.map (hitJson s ds t (requestColumns t req))

/-- the elements of the outer array of `Response.JSON`: the optional header row, then the rows -/
def jsonRows (s : Schema) (ds : Dataset) (t : Table) (req : Request) (hits : List Hit) : List Json :=
  (if sendColumnsHeader req then [headerRow t req] else []) ++ dataRows s ds t req hits

/-- `Response.JSON` as a value -/
def jsonAnswer (s : Schema) (ds : Dataset) (t : Table) (req : Request) (hits : List Hit) : Json :=
  .arr (jsonRows s ds t req hits).toArray

/-- the `failed` object: backend id to (trimmed) error text -/
def failedObj (failed : List (String × String)) : Json :=
  Json.mkObj (failed.map fun (k, v) => (k, Json.str (trimSpace v)))

/-- the members of the object `Response.WrappedJSON` writes, in the order it writes them.
    `scanned` is the `rows_scanned` counter, which the model does not compute: the statements
    hold for every value of it. -/
def wrappedFields (s : Schema) (ds : Dataset) (t : Table) (req : Request) (res : DataResult)
    (scanned : Nat) : List (String × Json) :=
  [("data", Json.arr (dataRows s ds t req res.hits).toArray), ("failed", failedObj res.failed)]
    ++ (if sendColumnsHeader req then [("columns", headerRow t req)] else [])
    ++ [("rows_scanned", natJson scanned), ("total_count", natJson res.total)]

/-- `Response.WrappedJSON` as a value -/
def wrappedAnswer (s : Schema) (ds : Dataset) (t : Table) (req : Request) (res : DataResult)
    (scanned : Nat) : Json :=
  Json.mkObj (wrappedFields s ds t req res scanned)

/-- the keys of the wrapped object -/
def wrappedKeys (req : Request) : List String :=
  ["data", "failed"] ++ (if sendColumnsHeader req then ["columns"] else []) ++ ["rows_scanned", "total_count"]

/-- `Response.Buffer` for a data answer, as a value -/
def answerValue (s : Schema) (ds : Dataset) (t : Table) (req : Request) (res : DataResult)
    (scanned : Nat) : Json :=
  if req.outFmt = .wrapped then wrappedAnswer s ds t req res scanned else jsonAnswer s ds t req res.hits

/-! ### widths -/

theorem isRow_hitJson (s : Schema) (ds : Dataset) (t : Table) (cols : List Column) (h : Hit) :
    IsRow cols.length (hitJson s ds t cols h) :=
  ⟨_, rfl, by simp⟩

theorem dataRows_length (s : Schema) (ds : Dataset) (t : Table) (req : Request) (hits : List Hit) :
    (dataRows s ds t req hits).length = hits.length := by
  simp [dataRows]

theorem isRow_of_mem_dataRows (s : Schema) (ds : Dataset) (t : Table) (req : Request) (hits : List Hit)
    (j : Json) (hj : j ∈ dataRows s ds t req hits) : IsRow (requestColumns t req).length j := by
  obtain ⟨h, _, rfl⟩ := List.mem_map.mp hj
  exact isRow_hitJson s ds t _ h

theorem headerNames_length (t : Table) (req : Request) :
    (headerNames t req).length = (requestColumns t req).length + req.stats.length := by
  simp [headerNames]

theorem isRow_headerRow (t : Table) (req : Request) :
    IsRow ((requestColumns t req).length + req.stats.length) (headerRow t req) :=
  ⟨_, rfl, by simp [headerNames_length]⟩

theorem zipIdx_map_getD (l : List String) (f : String → Column) :
    ((l.map f).zipIdx.map fun (c, k) => (l[k]?).getD c.name) = l := by
  apply List.ext_getElem
  · simp
  · intro i h1 h2
    have h3 : i < l.length := by simpa using h1
    simp [h3]

/-- with a `Columns:` header the header row repeats the names as the client wrote them -/
theorem headerNames_of_columns (t : Table) (req : Request) (hs : req.stats = []) (hc : req.columns ≠ []) :
    headerNames t req = req.columns := by
  have e : requestColumns t req = req.columns.map t.colWithFallback := by
    have : req.columns.isEmpty = false := by simp [hc]
    simp [requestColumns, this]
  simp only [headerNames, e, hs, List.length_nil, List.range_zero, List.map_nil, List.append_nil]
  exact zipIdx_map_getD req.columns t.colWithFallback

/-- without a `Columns:` header the header row lists the names of all columns of the table -/
theorem headerNames_of_no_columns (t : Table) (req : Request) (hs : req.stats = []) (hc : req.columns = []) :
    headerNames t req = t.cols.map (·.name) := by
  have e : requestColumns t req = t.cols := by simp [requestColumns, hs, hc]
  simp only [headerNames, e, hs, hc, List.length_nil, List.range_zero, List.map_nil, List.append_nil]
  apply List.ext_getElem
  · simp
  · intro i h1 h2
    simp

theorem isRow_of_mem_jsonRows (s : Schema) (ds : Dataset) (t : Table) (req : Request) (hits : List Hit)
    (hs : req.stats = []) (j : Json) (hj : j ∈ jsonRows s ds t req hits) :
    IsRow (requestColumns t req).length j := by
  rcases List.mem_append.mp hj with h | h
  · split at h
    · have : j = headerRow t req := by simpa using h
      subst this
      have := isRow_headerRow t req
      simpa [hs] using this
    · simp at h
  · exact isRow_of_mem_dataRows s ds t req hits j h

theorem jsonRows_length (s : Schema) (ds : Dataset) (t : Table) (req : Request) (hits : List Hit) :
    (jsonRows s ds t req hits).length = (if sendColumnsHeader req then 1 else 0) + hits.length := by
  unfold jsonRows
  split <;> simp [dataRows_length] <;> omega

/-! ### `total_count` against the number of rows -/

theorem gatherRows_hits_le_total (m : EvalMode) (cx : Ctx) (t : Table) (req : Request) :
    (gatherRows m cx t req).hits.length ≤ (gatherRows m cx t req).total := by
  rw [gatherRows_eq]
  cases peerCut m req with
  | none => exact Nat.le_refl _
  | some l =>
    simp only [List.length_take]
    split <;> omega

theorem collected_length_le (m : EvalMode) (s : Schema) (ds : Dataset) (t : Table) (req : Request) :
    (collected m s ds t req).length ≤ totalOf m s ds t req := by
  rw [collected, totalOf, ← List.sum_eq_foldl_nat, List.length_flatMap]
  apply sum_le_sum_of_forall
  intro p hp
  obtain ⟨b, _, rfl⟩ := List.mem_map.mp hp
  exact gatherRows_hits_le_total m _ t req

theorem rawPool_length (m : EvalMode) (s : Schema) (ds : Dataset) (t : Table) (req : Request) :
    (rawPool m s ds t req).length = (collected m s ds t req).length := by
  unfold rawPool
  split
  · rfl
  · exact List.length_mergeSort _

theorem window_length_le (req : Request) (pool : List Hit) :
    (window req pool).length ≤ pool.length - req.offset := by
  unfold window
  cases req.limit with
  | none => simp
  | some l => simp only [List.length_take, List.length_drop]; omega

theorem window_length_le_limit (req : Request) (pool : List Hit) (l : Nat) (h : req.limit = some l) :
    (window req pool).length ≤ l := by
  unfold window
  rw [h]
  simp only [List.length_take]
  omega

/-- the rows of an answer plus the offset never exceed `total_count` -/
theorem hits_length_le (m : EvalMode) (s : Schema) (ds : Dataset) (t : Table) (req : Request) :
    (dataQuery m s ds t req).hits.length ≤ (dataQuery m s ds t req).total - req.offset := by
  rw [dataQuery_eq]
  split
  · simp
  · have a := window_length_le req (rawPool m s ds t req)
    have b := rawPool_length m s ds t req
    have c := collected_length_le m s ds t req
    simp only []
    omega

theorem hits_length_le_limit (m : EvalMode) (s : Schema) (ds : Dataset) (t : Table) (req : Request)
    (l : Nat) (h : req.limit = some l) : (dataQuery m s ds t req).hits.length ≤ l := by
  rw [dataQuery_eq]
  split
  · simp
  · exact window_length_le_limit req _ l h

/-! ### the wrapped object -/

theorem wrappedFields_keys (s : Schema) (ds : Dataset) (t : Table) (req : Request) (res : DataResult)
    (scanned : Nat) : (wrappedFields s ds t req res scanned).map Prod.fst = wrappedKeys req := by
  unfold wrappedFields wrappedKeys
  split <;> rfl

theorem wrappedKeys_distinct (req : Request) :
    (wrappedKeys req).Pairwise (fun a b => ¬ compare a b = .eq) := by
  unfold wrappedKeys
  split <;> decide

theorem wrappedFields_distinct (s : Schema) (ds : Dataset) (t : Table) (req : Request) (res : DataResult)
    (scanned : Nat) :
    (wrappedFields s ds t req res scanned).Pairwise (fun a b => ¬ compare a.1 b.1 = .eq) := by
  have := wrappedKeys_distinct req
  rw [← wrappedFields_keys s ds t req res scanned, List.pairwise_map] at this
  exact this

/-- looking up a member that was written finds the value that was written -/
theorem wrapped_get (s : Schema) (ds : Dataset) (t : Table) (req : Request) (res : DataResult)
    (scanned : Nat) (k : String) (v : Json) (h : (k, v) ∈ wrappedFields s ds t req res scanned) :
    (wrappedAnswer s ds t req res scanned).getObjVal? k = .ok v := by
  have := Std.TreeMap.Raw.getElem?_ofList_of_mem (cmp := compare) (k := k) (k' := k) (v := v)
    (l := wrappedFields s ds t req res scanned) Std.ReflCmp.compare_self
    (wrappedFields_distinct s ds t req res scanned) h
  simp only [wrappedAnswer, Json.mkObj, Json.getObjVal?, Std.TreeMap.Raw.get?_eq_getElem?, this]
  rfl

/-- looking up any other key fails -/
theorem wrapped_get_none (s : Schema) (ds : Dataset) (t : Table) (req : Request) (res : DataResult)
    (scanned : Nat) (k : String) (h : k ∉ wrappedKeys req) :
    ∃ e, (wrappedAnswer s ds t req res scanned).getObjVal? k = .error e := by
  have hc : ((wrappedFields s ds t req res scanned).map Prod.fst).contains k = false := by
    rw [wrappedFields_keys]
    simpa using h
  have := Std.TreeMap.Raw.getElem?_ofList_of_contains_eq_false (cmp := compare)
    (l := wrappedFields s ds t req res scanned) (k := k) hc
  simp only [wrappedAnswer, Json.mkObj, Json.getObjVal?, Std.TreeMap.Raw.get?_eq_getElem?, this]
  exact ⟨_, rfl⟩

/-! ## Limit / Offset only select rows -/

/-- the same request without `Limit:` and `Offset:` -/
def unwindowed (req : Request) : Request := { req with limit := none, offset := 0 }

theorem requestColumns_unwindowed (t : Table) (req : Request) :
    requestColumns t (unwindowed req) = requestColumns t req := rfl

theorem sendColumnsHeader_unwindowed (req : Request) :
    sendColumnsHeader (unwindowed req) = sendColumnsHeader req := rfl

theorem headerRow_unwindowed (t : Table) (req : Request) :
    headerRow t (unwindowed req) = headerRow t req := rfl

/-- every hit of an answer comes from the uncut hit list of an available, selected backend -/
theorem mem_hits_fullHits (m : EvalMode) (s : Schema) (ds : Dataset) (t : Table) (req : Request) (h : Hit)
    (hh : h ∈ (dataQuery m s ds t req).hits) :
    ∃ b ∈ availBackends ds t req, h ∈ fullHits m { schema := s, ds := ds, b := b } t req := by
  rw [dataQuery_eq] at hh
  split at hh
  · simp at hh
  · have h1 : h ∈ rawPool m s ds t req := (window_sublist_pool req _).subset hh
    have h2 : h ∈ collected m s ds t req := by
      unfold rawPool at h1
      split at h1
      · exact h1
      · exact List.mem_mergeSort.mp h1
    simp only [collected, peerResults, List.mem_flatMap, List.mem_map] at h2
    obtain ⟨_, ⟨b, hb, rfl⟩, h3⟩ := h2
    exact ⟨b, hb, mem_gatherRows_hits m _ t req h h3⟩

theorem peerCut_unwindowed (m : EvalMode) (req : Request) : peerCut m (unwindowed req) = none := by
  simp [peerCut, resultLimit, unwindowed]

/-- without `Limit:` / `Offset:` every hit of every available backend is in the answer -/
theorem mem_hits_unwindowed (m : EvalMode) (s : Schema) (ds : Dataset) (t : Table) (req : Request) (h : Hit)
    (b : Backend) (hb : b ∈ availBackends ds t req)
    (hh : h ∈ fullHits m { schema := s, ds := ds, b := b } t req) :
    h ∈ (dataQuery m s ds t (unwindowed req)).hits := by
  rw [dataQuery_eq, if_neg (by simp [unwindowed])]
  have hc : h ∈ collected m s ds t (unwindowed req) := by
    rw [collected_of_cut_none m s ds t _ (peerCut_unwindowed m req)]
    simp only [backendHits, List.mem_flatten, List.mem_map]
    exact ⟨_, ⟨b, hb, rfl⟩, hh⟩
  have hp : h ∈ rawPool m s ds t (unwindowed req) := by
    unfold rawPool
    split
    · exact hc
    · exact List.mem_mergeSort.mpr hc
  simpa [window, unwindowed] using hp

/-- every hit of the windowed answer is a hit of the answer without `Limit:` / `Offset:` -/
theorem hits_subset_unwindowed (m : EvalMode) (s : Schema) (ds : Dataset) (t : Table) (req : Request) :
    ∀ h ∈ (dataQuery m s ds t req).hits, h ∈ (dataQuery m s ds t (unwindowed req)).hits := by
  intro h hh
  obtain ⟨b, hb, h2⟩ := mem_hits_fullHits m s ds t req h hh
  exact mem_hits_unwindowed m s ds t req h b hb h2

/-- where a hit comes from: its backend is a selected, available one and its row is a row of the
    table in that backend's store -/
theorem hit_origin (m : EvalMode) (s : Schema) (ds : Dataset) (t : Table) (req : Request) (h : Hit)
    (hh : h ∈ (dataQuery m s ds t req).hits) :
    h.b ∈ availBackends ds t req ∧ h.r ∈ tableRows { schema := s, ds := ds, b := h.b } t := by
  obtain ⟨b, hb, h2⟩ := mem_hits_fullHits m s ds t req h hh
  simp only [fullHits, List.mem_map] at h2
  obtain ⟨r, hr, rfl⟩ := h2
  refine ⟨hb, ?_⟩
  simp only [mkHit]
  have hr' := (List.mem_filter.mp hr).1
  split at hr'
  · exact Lmd.Lemmas.preFiltered_subset _ t _ _ r hr'
  · exact hr'

/-! ## the bytes of an answer -/

/-- rows are separated by a comma and a newline (`WriteDataResponse`) -/
def rowsText (rows : List Json) : String := joinWith ",\n" (rows.map Json.compress)

/-- the text `Response.JSON` writes -/
def jsonBody (s : Schema) (ds : Dataset) (t : Table) (req : Request) (hits : List Hit) : String :=
  "[" ++ (if sendColumnsHeader req then
            (headerRow t req).compress ++ "\n" ++ (if hits.isEmpty then "" else ",") else "")
      ++ rowsText (dataRows s ds t req hits) ++ "]"

/-- the members of the `failed` object as text -/
def failedText (failed : List (String × String)) : String :=
  joinWith "," (failed.map fun (k, v) => (Json.str k).compress ++ ":" ++ (Json.str (trimSpace v)).compress)

/-- the text `Response.WrappedJSON` writes -/
def wrappedBody (s : Schema) (ds : Dataset) (t : Table) (req : Request) (res : DataResult)
    (scanned : Nat) : String :=
  "{\"data\":\n[" ++ rowsText (dataRows s ds t req res.hits) ++ "]\n,\"failed\": {" ++ failedText res.failed ++ "}"
    ++ (if sendColumnsHeader req then "\n,\"columns\":" ++ (headerRow t req).compress ++ "\n" else "")
    ++ "\n,\"rows_scanned\":" ++ toString scanned ++ "\n,\"total_count\":" ++ toString res.total ++ "}"

/-- `Response.Buffer` of a successful data answer -/
def answerBody (s : Schema) (ds : Dataset) (t : Table) (req : Request) (res : DataResult)
    (scanned : Nat) : String :=
  if req.outFmt = .wrapped then wrappedBody s ds t req res scanned else jsonBody s ds t req res.hits

/-- `Response.send` of a successful data answer: status 200, framed as the request asks -/
def answerBytes (s : Schema) (ds : Dataset) (t : Table) (req : Request) (res : DataResult)
    (scanned : Nat) : String :=
  sendBytes req.fixed16 200 (answerBody s ds t req res scanned)

/-- `Response.send` of an error that arises after the request was read (`processRequest`: 400 for a bad
    request, 502 when every named backend failed): the body is the error text, framed as the request asks -/
def errorBytes (req : Request) (code : Nat) (msg : String) : String := sendBytes req.fixed16 code msg

/-- a request that does not parse is answered through an empty request object
    (`Response{code: 400, request: &Request{}}`): the plain error text, never a status line -/
def parseErrorBytes (msg : String) : String := sendBytes ({} : Request).fixed16 400 msg

/-! ## the JSON shape of a cell -/

/-- the shape documented for a column type: strings for text, numbers for int / float / time,
    arrays of strings / numbers for the lists, arrays of two-element string arrays for the service
    member lists, an object for custom variables; a JSON column holds its text or the empty object -/
def CellShape (d : DataType) (j : Json) : Prop :=
  match d with
  | .str | .strLarge => IsStr j
  | .int | .int64 | .float => IsNum j
  | .strList => ArrOf IsStr j
  | .int64List => ArrOf IsNum j
  | .svcMemberList => ArrOf (fun p => ∃ a b, p = Json.arr #[.str a, .str b]) j
  | .ifaceList => ArrOf (fun _ => True) j
  | .customVar => IsObj j
  | .json => IsStr j ∨ IsObj j

/-- the coarse JSON kind of a shape -/
def kindOK (d : DataType) (k : JsonKind) : Bool :=
  match d with
  | .str | .strLarge => k == .str
  | .int | .int64 | .float => k == .num
  | .strList | .int64List | .svcMemberList | .ifaceList => k == .arr
  | .customVar => k == .obj
  | .json => k == .str || k == .obj

theorem kindOK_of_shape (d : DataType) (j : Json) (h : CellShape d j) : kindOK d (jsonKind j) = true := by
  cases d <;> simp only [CellShape, IsStr, IsNum, IsObj, ArrOf] at h
  all_goals first
    | (rcases h with ⟨_, rfl⟩ | ⟨_, rfl⟩ <;> rfl)
    | (obtain ⟨_, rfl, _⟩ := h; rfl)
    | (obtain ⟨_, rfl⟩ := h; rfl)

/-- a value is of the kind its column type stores (what `coerce`, the zero value and the empty
    value of the type produce; numbers may be integral or fractional) -/
def HasType (d : DataType) (v : Val) : Prop :=
  match d, v with
  | .str, .s _ => True
  | .strLarge, .s _ => True
  | .json, .s _ => True
  | .int, .i _ => True
  | .int, .f _ => True
  | .int64, .i _ => True
  | .int64, .f _ => True
  | .float, .i _ => True
  | .float, .f _ => True
  | .strList, .sl _ => True
  | .int64List, .il _ => True
  | .svcMemberList, .ml _ => True
  | .ifaceList, .jl _ => True
  | .customVar, .cv _ _ => True
  | .strList, .emptyList t => t = "[]"
  | .int64List, .emptyList t => t = "[]"
  | .svcMemberList, .emptyList t => t = "[]"
  | .ifaceList, .emptyList t => t = "[]"
  | .customVar, .emptyList t => t ≠ "[]"
  | _, _ => False

theorem coerce_hasType (d : DataType) (j : Json) : HasType d (coerce d j) := by
  cases d
  case ifaceList => cases j <;> simp [coerce, HasType]
  all_goals simp only [coerce, HasType]

theorem zero_hasType (d : DataType) : HasType d d.zero := by
  cases d <;> simp [DataType.zero, HasType]

theorem emptyVal_hasType (d : DataType) : HasType d d.emptyVal := by
  cases d <;> simp [DataType.emptyVal, HasType]

theorem emptyCellJson_shape (d : DataType) : CellShape d (emptyCellJson d) := by
  cases d <;> simp only [CellShape, emptyCellJson]
  all_goals first
    | exact ⟨_, rfl⟩
    | exact ⟨#[], rfl, by simp⟩
    | exact Or.inr ⟨_, rfl⟩

theorem valJson_shape (d : DataType) (v : Val) (h : HasType d v) : CellShape d (valJson v) := by
  cases d <;> cases v <;> simp only [HasType] at h <;> simp only [CellShape, valJson]
  all_goals first
    | exact ⟨_, rfl⟩
    | exact Or.inl ⟨_, rfl⟩
    | (subst h; exact ⟨#[], by simp, by simp⟩)
    | (rw [if_neg (by simpa using h)]; exact ⟨_, rfl⟩)
    | (refine ⟨_, rfl, ?_⟩
       intro x hx
       simp only [List.mem_map] at hx
       first
         | trivial
         | (obtain ⟨a, _, rfl⟩ := hx; exact ⟨_, rfl⟩)
         | (obtain ⟨⟨a, b⟩, _, rfl⟩ := hx; exact ⟨a, b, rfl⟩))

/-- what has to hold of the stored data for the cell of column `c` of row `r`: the values the
    getters return are of the column's type, and a reference column names an existing column of
    the same type in the referenced table -/
structure CellTyped (cx : Ctx) (t : Table) (r : Row) (c : Column) : Prop where
  loc : c.storage = .loc → HasType c.dtype (localVal t r c)
  virt : c.storage = .virt → HasType c.dtype (getVal cx t r c)
  ref : c.storage = .ref → ∀ rr, refRow cx t r c.refTable = some rr →
    ∃ rc, (cx.table c.refTable).col? c.refCol = some rc ∧ rc.dtype = c.dtype ∧
      (rc.storage = .loc → HasType rc.dtype (localVal (cx.table c.refTable) rr rc)) ∧
      (rc.storage ≠ .loc → HasType rc.dtype (getVal cx (cx.table c.refTable) rr rc))

theorem cellJson_shape (cx : Ctx) (t : Table) (r : Row) (c : Column) (h : CellTyped cx t r c) :
    CellShape c.dtype (cellJson cx t r c) := by
  unfold cellJson
  split
  · exact emptyCellJson_shape _
  · cases hs : c.storage with
    | loc => exact valJson_shape _ _ (h.loc hs)
    | ref =>
      simp only []
      cases hr : refRow cx t r c.refTable with
      | none => exact emptyCellJson_shape _
      | some rr =>
        obtain ⟨rc, h1, h2, h3, h4⟩ := h.ref hs rr hr
        simp only [h1]
        rw [← h2]
        split
        · exact emptyCellJson_shape _
        · cases hrs : rc.storage with
          | loc => exact valJson_shape _ _ (h3 hrs)
          | ref => exact valJson_shape _ _ (h4 (by simp [hrs]))
          | virt => exact valJson_shape _ _ (h4 (by simp [hrs]))
    | virt =>
      simp only []
      have hv := valJson_shape _ _ (h.virt hs)
      split
      · rename_i hd
        split
        · split
          · rw [hd]; exact ⟨_, rfl⟩
          · exact hv
        · exact hv
      · exact hv

/-- a locally stored column whose cell, if present, is of the column's type (and whose lower-case
    shadow, if it is one, is a text column) reads as a value of its type -/
theorem localVal_hasType (t : Table) (r : Row) (c : Column)
    (hcell : ∀ v, r.cell? c.name = some v → HasType c.dtype v)
    (hlc : hasSuffix c.name "_lc" = true → (t.col? (trimSuffix c.name "_lc")).isSome = true →
      c.dtype = .str ∨ c.dtype = .strLarge) :
    HasType c.dtype (localVal t r c) := by
  have hplain : HasType c.dtype ((r.cell? c.name).getD c.dtype.zero) := by
    cases hc : r.cell? c.name with
    | none => exact zero_hasType _
    | some v => exact hcell v hc
  unfold localVal
  split
  · rename_i hsuf
    split
    · rename_i base hb
      have := hlc hsuf (by simp [hb])
      have hstr : ∀ x, HasType c.dtype (.s x) := by
        intro x
        rcases this with e | e <;> rw [e] <;> trivial
      split <;> exact hstr _
    · exact hplain
  · exact hplain

theorem hitJson_cell (s : Schema) (ds : Dataset) (t : Table) (cols : List Column) (h : Hit)
    (k : Nat) (hk : k < cols.length) :
    ∃ a : Array Json, hitJson s ds t cols h = .arr a ∧ a.size = cols.length ∧
      a[k]? = some (cellJson { schema := s, ds := ds, b := h.b } t h.r cols[k]) :=
  ⟨_, rfl, by simp, by simp [hk]⟩

/-! ## a Stats answer -/

open Lmd.C05 Lmd.Dist in
theorem lookup_of_mem (M : StatsMap) (hn : (keys M).Nodup) (k : String) (a : Accs) (h : (k, a) ∈ M) :
    lookup M k = some a := by
  induction M with
  | nil => simp at h
  | cons x xs ih =>
    obtain ⟨k0, a0⟩ := x
    rw [lookup_cons]
    simp only [keys, List.map_cons, List.nodup_cons] at hn
    rcases List.mem_cons.mp h with e | e
    · cases e; simp
    · have hk : k ∈ xs.map (·.1) := List.mem_map.mpr ⟨(k, a), e, rfl⟩
      have hne : ¬ k0 = k := fun e' => hn.1 (e' ▸ hk)
      rw [if_neg hne]
      exact ih hn.2 e

open Lmd.C05 Lmd.Dist in
/-- the rows of a Stats result: distinct keys, every slot list has one slot per `Stats:` line, of
    that line's kind -/
theorem statsQuery_rows_wf (m : StatsMode) (s : Schema) (ds : Dataset) (t : Table) (req : Request) :
    (keys (statsQuery m s ds t req).rows).Nodup ∧ WFmap (kindsOf req) (statsQuery m s ds t req).rows := by
  rw [statsQuery_eq]
  split
  · exact ⟨by simp [keys], wfmap_nil _⟩
  · have h1 := mergedOf_spec m s ds t req (availBackends ds t req)
    have h2 := fixRows_spec req _ h1.1 h1.2.1
    exact ⟨h2.1, h2.2.1⟩

open Lmd.C05 Lmd.Dist in
theorem statsQuery_slots_length (m : StatsMode) (s : Schema) (ds : Dataset) (t : Table) (req : Request)
    (k : String) (accs : Accs) (h : (k, accs) ∈ (statsQuery m s ds t req).rows) :
    accs.length = req.stats.length := by
  obtain ⟨hn, hw⟩ := statsQuery_rows_wf m s ds t req
  have := (hw k accs (lookup_of_mem _ hn k accs h)).length
  simpa [kindsOf] using this

open Lmd.C05 Lmd.Dist in
/-- without `Columns:` a Stats query that does not crash has exactly one row, with the empty key -/
theorem statsQuery_single_row (m : StatsMode) (s : Schema) (ds : Dataset) (t : Table) (req : Request)
    (hc : req.columns = []) (hcr : (statsQuery m s ds t req).crash = false) :
    ∃ accs, (statsQuery m s ds t req).rows = [("", accs)] := by
  have he : req.columns.isEmpty = true := by simp [hc]
  rw [statsQuery_crash] at hcr
  obtain ⟨hn, _⟩ := statsQuery_rows_wf m s ds t req
  rw [statsQuery_rows m s ds t req hcr] at hn ⊢
  have hsp := mergedOf_spec m s ds t req (availBackends ds t req)
  have hkey : ∀ key, (lookup (mergedOf m s ds t req (availBackends ds t req)) key).isSome = true → key = "" := by
    intro key hk
    rw [hsp.2.2.2 key, List.any_eq_true] at hk
    obtain ⟨M, hM, hk⟩ := hk
    exact mapsOf_key_empty m s ds t req _ he M hM key hk
  have hsome := fixRows_isSome_nocols req _ he hkey
  generalize fixRows req (mergedOf m s ds t req (availBackends ds t req)) = R at hn hsome
  have hall : ∀ p ∈ R, p.1 = "" := by
    intro p hp
    have : (lookup R p.1).isSome = true := by
      rw [lookup_of_mem R hn p.1 p.2 hp]; rfl
    rw [hsome] at this
    simpa using this
  match R, hn, hsome, hall with
  | [], _, hsome, _ =>
    have := hsome ""
    simp [lookup_nil] at this
  | [(k, a)], _, _, hall =>
    have := hall (k, a) (by simp)
    simp only at this
    subst this
    exact ⟨a, rfl⟩
  | (k, a) :: (k', a') :: R', hn, _, hall =>
    have e1 := hall (k, a) (by simp)
    have e2 := hall (k', a') (by simp)
    simp only at e1 e2
    subst e1 e2
    simp [keys] at hn

/-- split a character list at every occurrence of `sep` (`strings.Split` for a one-character separator) -/
def splitL (sep : Char) : List Char → List (List Char)
  | [] => [[]]
  | c :: cs =>
    if c = sep then [] :: splitL sep cs
    else match splitL sep cs with
      | p :: ps => (c :: p) :: ps
      | [] => [[c]]

/-- the parts of a group key (`strings.Split(key, ListSepChar1)`) -/
def keyParts (key : String) : List String := (splitL (Char.ofNat 0) key.toList).map String.ofList

/-- one row of a Stats answer (`CalculateFinalStats`): the parts of the group key in the first
    `ncols` cells (a cell without a part stays empty), then the final value of every slot.  `fmt`
    is the way a final value `numerator / denominator` is printed as a number; the statements
    hold for every such function. -/
def statsRow (fmt : Int × Nat → Lean.JsonNumber) (ncols : Nat) (key : String) (accs : Accs) : Json :=
  .arr (((List.range ncols).map fun i =>
            match (keyParts key)[i]? with
            | some p => Json.str p
            | none => Json.null)
        ++ accs.map (fun (a : Acc) => Json.num (fmt a.final))).toArray

/-- the rows of a Stats answer -/
def statsRows (fmt : Int × Nat → Lean.JsonNumber) (req : Request) (res : StatsResult) : List Json :=
  res.rows.map fun p => statsRow fmt req.columns.length p.1 p.2

/-- `Response.JSON` of a Stats answer (no header row: `SendColumnsHeader` is false with `Stats:`) -/
def statsAnswer (fmt : Int × Nat → Lean.JsonNumber) (req : Request) (res : StatsResult) : Json :=
  .arr (statsRows fmt req res).toArray

theorem sendColumnsHeader_stats (req : Request) (h : req.stats ≠ []) : sendColumnsHeader req = false := by
  simp [sendColumnsHeader, h]

theorem isRow_statsRow (fmt : Int × Nat → Lean.JsonNumber) (ncols : Nat) (key : String) (accs : Accs) :
    IsRow (ncols + accs.length) (statsRow fmt ncols key accs) :=
  ⟨_, rfl, by simp⟩

theorem statsRow_stat_cell (fmt : Int × Nat → Lean.JsonNumber) (ncols : Nat) (key : String) (accs : Accs)
    (i : Nat) (hi : i < accs.length) :
    ∃ a : Array Json, statsRow fmt ncols key accs = .arr a ∧
      a[ncols + i]? = some (Json.num (fmt accs[i].final)) := by
  refine ⟨_, rfl, ?_⟩
  simp [hi]

theorem statsRow_key_cell (fmt : Int × Nat → Lean.JsonNumber) (ncols : Nat) (key : String) (accs : Accs)
    (i : Nat) (hi : i < ncols) (hp : ncols ≤ (keyParts key).length) :
    ∃ a : Array Json, statsRow fmt ncols key accs = .arr a ∧
      a[i]? = some (Json.str ((keyParts key)[i]'(by omega))) := by
  refine ⟨_, rfl, ?_⟩
  have h2 : i < (keyParts key).length := by omega
  simp [List.getElem?_append_left, hi, h2]

/-! ### the group key has a part for every requested column -/

theorem splitL_length (sep : Char) : ∀ l : List Char, (splitL sep l).length = l.count sep + 1
  | [] => rfl
  | c :: cs => by
    have ih := splitL_length sep cs
    unfold splitL
    by_cases h : c = sep
    · subst h
      simp [ih]
    · have hb : (c == sep) = false := by simp [h]
      rw [if_neg h, List.count_cons, hb]
      cases hs : splitL sep cs with
      | nil => rw [hs] at ih; simp at ih
      | cons p ps =>
        rw [hs] at ih
        simpa using ih

theorem sep0_toList : sep0.toList = [Char.ofNat 0] := by
  simp [sep0]

theorem count_joinWith : ∀ xs : List String,
    xs.length ≤ (joinWith sep0 xs).toList.count (Char.ofNat 0) + 1
  | [] => by simp
  | [a] => by simp
  | a :: b :: rest => by
    have ih := count_joinWith (b :: rest)
    have e : joinWith sep0 (a :: b :: rest) = a ++ sep0 ++ joinWith sep0 (b :: rest) := rfl
    rw [e, String.toList_append, String.toList_append, sep0_toList, List.count_append, List.count_append]
    simp only [List.length_cons, List.count_cons_self, List.count_nil] at ih ⊢
    omega

theorem keyParts_joinWith (xs : List String) : xs.length ≤ (keyParts (joinWith sep0 xs)).length := by
  rw [keyParts, List.length_map, splitL_length]
  exact count_joinWith xs

open Lmd.C05 Lmd.Dist in
/-- every key of a Stats result has at least as many parts as the request has columns -/
theorem statsQuery_key_parts (m : StatsMode) (s : Schema) (ds : Dataset) (t : Table) (req : Request)
    (k : String) (accs : Accs) (h : (k, accs) ∈ (statsQuery m s ds t req).rows) :
    req.columns.length ≤ (keyParts k).length := by
  by_cases hc : req.columns = []
  · simp [hc]
  · have he : req.columns.isEmpty = false := by simp [hc]
    obtain ⟨hn, _⟩ := statsQuery_rows_wf m s ds t req
    have hl := lookup_of_mem _ hn k accs h
    rw [statsQuery_eq] at hl
    split at hl
    · simp [lookup_nil] at hl
    · rw [fixRows_isSome_cols req _ he] at hl
      have hsp := mergedOf_spec m s ds t req (availBackends ds t req)
      have hs : (lookup (mergedOf m s ds t req (availBackends ds t req)) k).isSome = true := by
        rw [hl]; rfl
      rw [hsp.2.2.2 k, List.any_eq_true] at hs
      obtain ⟨M, hM, hk⟩ := hs
      obtain ⟨b, hb⟩ := mem_mapsOf hM
      rw [gsOf, gatherStats_eq] at hb
      have hf := (foldRows_spec _ _ _ _ _ _ _ hb).2 k
      simp only [lookup_nil, Option.isSome_none, Bool.false_or] at hf
      split at hf
      · rename_i hne
        cases hr : rowsOf (gsOk m { schema := s, ds := ds, b := b } t req)
            (gsKey { schema := s, ds := ds, b := b } t (req.columns.map t.colWithFallback))
            (gsCands m { schema := s, ds := ds, b := b } t req) k with
        | nil => simp [hr] at hne
        | cons r rs =>
          have hmem : r ∈ rowsOf (gsOk m { schema := s, ds := ds, b := b } t req)
            (gsKey { schema := s, ds := ds, b := b } t (req.columns.map t.colWithFallback))
            (gsCands m { schema := s, ds := ds, b := b } t req) k := by rw [hr]; simp
          simp only [rowsOf, List.mem_filter, Bool.and_eq_true, beq_iff_eq] at hmem
          rw [← hmem.2.2, gsKey]
          have := keyParts_joinWith ((req.columns.map t.colWithFallback).map
            (fun c => ((mkView { schema := s, ds := ds, b := b } t r).get c).keyString))
          simpa using this
      · rw [hf] at hk; simp at hk

/-! ### what holds of a cell without any assumption on the data -/

theorem emptyCellJson_kind_ne (d : DataType) :
    jsonKind (emptyCellJson d) ≠ .bool ∧ jsonKind (emptyCellJson d) ≠ .null := by
  cases d <;> simp [emptyCellJson, jsonKind, intJson, Json.mkObj]

theorem valJson_kind_ne (v : Val) : jsonKind (valJson v) ≠ .bool ∧ jsonKind (valJson v) ≠ .null := by
  cases v with
  | emptyList t => by_cases h : t = "[]" <;> simp [valJson, jsonKind, Json.mkObj, h]
  | _ => simp [valJson, jsonKind, intJson, milliJson, Json.mkObj]

/-- a cell is never a Boolean, and it is `null` only for a reference column whose referenced table
    lacks the referenced column -/
theorem cellJson_kind_ne (cx : Ctx) (t : Table) (r : Row) (c : Column) :
    jsonKind (cellJson cx t r c) ≠ .bool ∧
    (jsonKind (cellJson cx t r c) = .null →
      c.storage = .ref ∧ (cx.table c.refTable).col? c.refCol = none) := by
  have he := emptyCellJson_kind_ne
  have hv := valJson_kind_ne
  unfold cellJson
  split
  · exact ⟨(he _).1, fun h => absurd h (he _).2⟩
  · cases hs : c.storage with
    | loc => exact ⟨(hv _).1, fun h => absurd h (hv _).2⟩
    | virt =>
      simp only []
      repeat' split
      all_goals first
        | exact ⟨(hv _).1, fun h => absurd h (hv _).2⟩
        | exact ⟨by simp [jsonKind, Json.mkObj], by simp [jsonKind, Json.mkObj]⟩
    | ref =>
      simp only []
      cases hr : refRow cx t r c.refTable with
      | none => exact ⟨(he _).1, fun h => absurd h (he _).2⟩
      | some rr =>
        simp only []
        cases hc : (cx.table c.refTable).col? c.refCol with
        | none => exact ⟨by simp [jsonKind], fun _ => by simp⟩
        | some rc =>
          simp only []
          repeat' split
          all_goals first
            | exact ⟨(he _).1, fun h => absurd h (he _).2⟩
            | exact ⟨(hv _).1, fun h => absurd h (hv _).2⟩

end Lmd.Body
