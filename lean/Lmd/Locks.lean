/-
  Lmd.Locks — which tables a request read-locks (`Request.affectedTables` / `Response.lockStores`,
  pkg/lmd/response.go) and which tables its evaluation reads rows of.

  A query holds the read locks of `affectedTables` from row selection until the response is serialised; an update
  writes the rows of a table only under that table's write lock.  So a response is computed from one state of every
  table it reads exactly if every table it reads is among the locked ones - `tablesRead ⊆ affectedTables` - and the
  locks are taken in one global order (by table id), so that two queries and an update can never wait for each other
  in a cycle.
-/
import Lmd.Parse
import Lmd.Render

namespace Lmd

/-- the tables whose rows the virtual `*_with_info` / `*_with_state` columns walk -/
def crossTables : List String := ["hosts", "services", "comments", "downtimes"]

def isCrossVirtual (c : Column) : Bool :=
  c.storage == .virt && (hasSuffix c.name "_with_info" || hasSuffix c.name "_with_state")

/-- `addColumnTables`: the tables a column reads its value from, besides the table of the row itself -/
def columnTables (s : Schema) (c : Column) : List String :=
  match c.storage with
  | .ref =>
    let rc := ((s.table? c.refTable).bind (·.col? c.refCol))
    c.refTable :: (match rc with
      | some rc => if isCrossVirtual rc then crossTables else []
      | none => [])
  | _ => if isCrossVirtual c then crossTables else []

mutual
  def filterColumns : Filter → List Column
    | .leaf l _ => [l.col]
    | .grp _ fs _ => filtersColumns fs
  def filtersColumns : List Filter → List Column
    | [] => []
    | f :: fs => filterColumns f ++ filtersColumns fs
end

def statsColumns : List StatsEntry → List Column
  | [] => []
  | .counter f :: rest => filterColumns f ++ statsColumns rest
  | .agg _ c _ :: rest => c :: statsColumns rest

/-- every column the evaluation of a request looks at -/
def usedColumns (t : Table) (req : Request) : List Column :=
  requestColumns t req ++ filtersColumns req.filter ++ statsColumns req.stats ++ filtersColumns req.waitCondition ++
  req.sort.filterMap (·.col)

/-- the tables whose rows are read while the request is evaluated -/
def tablesRead (s : Schema) (t : Table) (req : Request) : List String :=
  t.name :: (usedColumns t req).flatMap (columnTables s)

def tableId (s : Schema) (name : String) : Nat :=
  match s.table? name with
  | some t => t.tid
  | none => 0

/-- insert into a list that is sorted by table id, dropping duplicates -/
def insertById (s : Schema) (x : String) : List String → List String
  | [] => [x]
  | y :: ys =>
    if tableId s x < tableId s y then x :: y :: ys
    else if tableId s x == tableId s y then y :: ys
    else y :: insertById s x ys

/-- `Request.affectedTables`: the table itself, the tables of all used columns, with `AuthUser` every referenced
    table; unique and sorted by table id (the order in which `lockStores` takes the read locks) -/
def affectedTables (s : Schema) (t : Table) (req : Request) : List String :=
  let names := t.name :: (usedColumns t req).flatMap (columnTables s) ++ (if req.authUser != "" then t.refs.map (·.table) else [])
  names.foldl (fun acc x => insertById s x acc) []

end Lmd
